"""C12 - a configuration is either rejected cleanly or honoured exactly.

One engine (`parse`, harness h_parse.cpp + h_config.cpp) with a `kind` per scenario:
  strs     a batch of strings through every string-level parser of oomd and the std::sto* under them
  cgroup   PluginArgParser::parseCgroup
  init     one registered plugin: registry lookup + initPlugin(args)
  compile  an IR through Config2::compile
  load     a JSON text through Main.cpp's parseConfig + compile (the daemon's start-up path)
  dropin   a drop-in file through the real FsDropInService + updateDropIns on a compiled engine
"""
import copy
import importlib.util
import itertools
import json
import os
import re

from vlib import core

PROP = "C12"
ENGINE = "parse"
HARNESS = "h_parse"
EXTRA_SRCS = ("h_config.cpp",)
FLAVOUR = "asan"
CHUNK = 40
ALPHA = "019.e-+ kMGT%xnaif"
ALPHA6 = "019.e- kM%"          # thorough: length 6 over a reduced alphabet
RULE = ("strings: every string over the 18-character alphabet {0 1 9 . e - + space k M G T % x n a i f} up to length 4 "
        "(quick) / 5, and up to 6 over {0 1 9 . e - space k M %} (thorough), through parseSize, parseSizeOrPercent, "
        "parseUnsignedInt, parseValue<int|int64|double|float|ms|bool|resource|string> and the six std::sto* "
        "functions; a boundary stream (2^31, 2^43, 2^53, 2^63, 2^64 neighbourhoods, 1e19, exponents around every "
        "format limit, nan / inf words, hex floats, trailing garbage, fractions, percent forms, white space) and "
        "seeded random longer strings; multi-term sizes (2..8 terms, mixed units, fractional terms, every term below 2^63) whose "
        "exact total lies just below / at / above 2^63, 2^64, 2^64+2^63, 2^65, also as thresholds of memory_above / "
        "kill_by_swap_usage and inside documents; bare-megabyte counts around 2^43 and 2^44.  plugins: every registered core plugin with valid / invalid / missing / unknown "
        "arguments drawn per argument kind from the schema extracted from the sources; IRs with named / unnamed "
        "rulesets and groups, delays, silence-logs, drop-in flags, prekill hooks; JSON documents (etc/desktop.json, "
        "generated ones) with a wrong value shape substituted at every position, truncated texts; drop-in files "
        "against a compiled base.  non-trivial = a batch with an accepted size and a rejected one, or a "
        "configuration-level scenario that reached plugin init")
ASSUMPTIONS = ["long double has a 64-bit significand (x87): sizes whose mantissa*unit needs more than 64 bits are "
               "compared with a tolerance of one byte per term and counted (inexact_domain)",
               "glibc sets ERANGE exactly for results that round to infinity or lie below the smallest normal number",
               "MemTotal / SwapTotal below 2^56 bytes (percent of total does not overflow int64)",
               "JSON numbers in configuration documents are integers of [-2^63, 2^64), which jsoncpp keeps exactly (its rendering of reals is not modelled)",
               "jsoncpp's text -> value tree step is taken from the harness (syntax verdict) and Python's json (tree)"]
TRUSTED = ["glibc strto* / libstdc++ std::sto* (modelled, validated string by string on every run)",
           "jsoncpp reader (external to the model)"]
EXHAUSTIVE = {"quick": True, "thorough": True}


def _extract():
    p = os.path.join(core.VERIF, "tools", "extract.py")
    spec = importlib.util.spec_from_file_location("verif_extract", p)
    m = importlib.util.module_from_spec(spec)
    spec.loader.exec_module(m)
    return m


_SCHEMAS = None


def schemas():
    global _SCHEMAS
    if _SCHEMAS is None:
        _SCHEMAS = _extract().typed_arg_schemas(core.REPO)
    return _SCHEMAS


# ------------------------------------------------------------------------------------------------
# strings
# ------------------------------------------------------------------------------------------------

BOUNDARY = [
    "", " ", "+", "-", "k", "%", ".", "e", "x", "0x", "0x.", "0x.p1", "1.5G 32K", "1.5M 32K 512", "1.5MK", "??", "+-123M", "-+5", "++5",
    "nan", "NaN", "NAN", "nan()", "nan(1_a)", "nan(", "nan(-)", "-nan", "inf", "INF", "-inf", "infinity", "Infinity", "infinit", "infinityx",
    "1e30", "1e19", "1e18", "1e18k", "9e18", "1e-1k", "1e-30", "1E3", "1e+3", "1e", "1e+", "1e-", "1.e2", ".e2", ".5e1", "5.", ".5", ".5G", "0.5k0.5",
    "1.0005k1.0005k", "0.1G", "0.3T", "0.7k", "0.0009765625k", "99999999999T", "8388607T", "8388608T", "8191.99999999999G",
    "0x10", "0X10", "0x1p3", "0x1P-2", "0x.8", "0x1.8p1", "0xg", "0x1p", "0x1pk", "0xffffffffffffffff", "0x10000000000000000", "0x7fffffffffffffff", "0x8000000000000000",
    "12abc", "1.25", "1.5", "5.5%", "5%", "0%", "100%", "101%", "-1%", "-0%", "+5%", " 5%", "5 %", "5%%", "5%z", "%5", "1e1%", "0x5%", "100.0%", "99999999999%",
    "2147483647", "2147483648", "-2147483648", "-2147483649", "4294967295", "4294967296",
    "8796093022207", "8796093022208", "-8796093022208", "-8796093022209", "9999999999999",
    "9007199254740991", "9007199254740992", "9007199254740993", "18014398509481985",
    "9223372036854775806", "9223372036854775807", "9223372036854775808", "9223372036854775809", "-9223372036854775807", "-9223372036854775808", "-9223372036854775809",
    "9223372036854775807.5", "9223372036854775807.9999999999", "922337203685477580.7e1",
    "18446744073709551615", "18446744073709551616", "-18446744073709551615", "-18446744073709551616", "99999999999999999999", "-1", "-0", "+0", "00", "007", " 12", "12 ", "\t12", "1 2", "1 1k", "5 M", "5M ", " 5M", "- 5M", "-5M", "5m", "5K5K5K", "kk", "5kk",
    "3.4028235e38", "3.4028236e38", "1e38", "1e39", "1.17549435e-38", "1e-38", "1e-45", "1e-46", "1.7976931348623157e308", "1.7976931348623159e308", "1e308", "1e309", "2.2250738585072014e-308", "1e-308", "4.9e-324", "1e-400",
    "1e4932", "1e4933", "1e-4931", "1e-4951", "1e-5000", "1e5000", "1e99999", "1e-99999", "0e99999", "0e-99999", "0.0", "-0.0", "000.000",
    "true", "True", "TRUE", "false", "False", "1", "0", "2", "yes", "io", "memory", "IO", "cpu",
    "0.1", "0.2", "0.3", "1.1", "123456789.125", "16777217", "16777216", "33554433", "0.30000000000000004", "4.99999999999999999999999", "8388607.99999999999999999999999999999k",
    "123456789012345678901234567890", "0.000000000000000000000000000001", "1.5G32K", "1G1M1K1", "1T1G", "7T", "8191G", "8192G", "8388608M",
]

# multi-component sums: every term below 2^63, the exact total at / around 2^63, 2^64 (where a uint64
# accumulator wraps back to a small value), 2^64 + 2^63, 2^65; and the bare-megabyte products around 2^63 / 2^64
BOUNDARY += [
    "8388607T 8388607T 2T 5K", "-8388607T 8388607T 2T 5K", "8388607T8388607T2T", "8388607T 8388607T 2T", "8388607T 8388607T 1T 1023G 1023M 1023K 1023",
    "8388607T 8388607T 1T 1023G 1023M 1023K 1024", "8388607T 8388607T", "8388607T 1T", "8388607T 1023G 1023M 1023K 1023", "8388607T 1023G 1023M 1023K 1024",
    "4611686018427387904 4611686018427387904", "4194304T 4194304T 4194304T 4194304T", "4194304T 4194304T 4194304T 4194304T 1", "4194304T4194304T4194304T4194304T5K",
    "4194304T 4194304T 4194304T", "4194304T 4194303T 1023G 1023M 1023K 1023", "4194304T 4194303T 1023G 1023M 1023.5K 512",
    "8388607.5T 8388607.5T 1T", "8388607.5T 8388607.5T 1T 0.5K", "6291456T 6291456T 4194304T 1", "8388607T 8388607T 8388607T 8388607T 4T 7",
    "9223372036854775807 1", "9223372036854775807K", "1K 9223372036854775807", "1K9223372036854774783", "1K9223372036854774784",
    "17592186044416", "17592186044421", "-17592186044416", "35184372088832", "17592186044415", "8796093022209", " 8796093022208", "+8796093022207",
    "-8796093022208", "-8796093022209", "00008796093022208", "70368744177664", "281474976710656",
]

TOTALS = ["1000", "0", "16384000000", "99", "92233720368547758", "1", "72057594037927935", "4294967297"]

UNITS = [(2 ** 40, "T"), (2 ** 30, "G"), (2 ** 20, "M"), (2 ** 10, "K")]


def render_amount(rng, v):
    """terms (each below 2^63, the bare one last) whose exact sum is v >= 0"""
    out = []
    for u, ch in UNITS:
        cap = (2 ** 63 - 1) // u
        while v >= u and (rng.random() < 0.85 or u == 2 ** 10):
            q = min(v // u, cap)
            if q > 1 and rng.random() < 0.3:
                q = rng.randint(1, q)
            if q % 2 == 1 and u >= 2 ** 20 and rng.random() < 0.2 and q * u + u // 2 <= v:
                out.append("%d.5%s" % (q, ch))
                v -= q * u + u // 2
            else:
                out.append("%d%s" % (q, ch))
                v -= q * u
            if len(out) > 7:
                break
    if v or not out:
        out.append(str(v))
    return out


def sum_strings(rng, n):
    """size strings of 2..8 terms whose exact total sits just below / at / above 2^63, 2^64, 2^64+2^63, 2^65"""
    for _ in range(n):
        base = rng.choice([2 ** 63, 2 ** 63, 2 ** 64, 2 ** 64, 2 ** 64, 2 ** 64 + 2 ** 63, 2 ** 65, 3 * 2 ** 64])
        delta = rng.choice([-1025, -1024, -513, -2, -1, 0, 0, 1, 2, 512, 1023, 1024, 5120, rng.randint(-2 ** 20, 2 ** 20),
                            rng.randint(0, 2 ** 41), rng.randint(-2 ** 41, 0), rng.randint(0, 2 ** 62)])
        total = base + delta
        lead = []
        for _ in range(rng.randint(0, 3)):
            u, ch = rng.choice(UNITS)
            q = rng.randint(1, (2 ** 63 - 1) // u) if rng.random() < 0.7 else rng.randint(1, 4096)
            frac = rng.choice(["", "", "", ".5", ".25", ".75"]) if u >= 2 ** 20 else ""
            val = q * u + (int(float("0" + frac) * u) if frac else 0)
            if val <= total and val < 2 ** 63:
                lead.append("%d%s%s" % (q, frac, ch))
                total -= val
        terms = lead + render_amount(rng, total)
        bare = [t for t in terms if t[-1].isdigit()]
        terms = [t for t in terms if not t[-1].isdigit()]
        rng.shuffle(terms)
        terms += bare[:1]                      # a bare number can only stand last
        sep = rng.choice([" ", " ", "", "  "])
        s = sep.join(terms)
        if rng.random() < 0.3:
            s = s.lower()
        yield rng.choice(["", "", "", "-", "+", " "]) + s


def overflow_sizes(rng, n):
    return list(sum_strings(rng, n))


def all_strings(alpha, maxlen, minlen=0):
    for n in range(minlen, maxlen + 1):
        for t in itertools.product(alpha, repeat=n):
            yield "".join(t)


def batches(strings, total_cycle, size):
    cur, i = [], 0
    for s in strings:
        cur.append(s)
        if len(cur) == size:
            yield {"kind": "strs", "ss": cur, "total": total_cycle[i % len(total_cycle)]}
            cur, i = [], i + 1
    if cur:
        yield {"kind": "strs", "ss": cur, "total": total_cycle[i % len(total_cycle)]}


def rand_strings(rng, n):
    rich = "0123456789" * 3 + ".eE-+ kKmMgGtT%xXpPnNaAiIfFtTyY()_," + "\t"
    for _ in range(n):
        r = rng.random()
        if r < 0.4:
            yield "".join(rng.choice(ALPHA) for _ in range(rng.randint(5, 12)))
        elif r < 0.7:
            yield "".join(rng.choice(rich) for _ in range(rng.randint(1, 14)))
        elif r < 0.85:
            # structured sizes
            parts = []
            for _ in range(rng.randint(1, 4)):
                num = rng.choice(["%d" % rng.randint(0, 10 ** rng.randint(1, 19)), "%d.%d" % (rng.randint(0, 9999), rng.randint(0, 99999)),
                                  "%de%d" % (rng.randint(0, 99), rng.randint(-5, 20)), ".%d" % rng.randint(0, 999)])
                parts.append(num + rng.choice(["", "k", "K", "m", "M", "g", "G", "t", "T"]) + rng.choice(["", " ", "  "]))
            yield rng.choice(["", "", "+", "-", " "]) + "".join(parts)
        else:
            b = rng.choice(BOUNDARY)
            i = rng.randint(0, len(b))
            yield b[:i] + rng.choice(ALPHA) + b[i + rng.randint(0, 1):]


# ------------------------------------------------------------------------------------------------
# plugins
# ------------------------------------------------------------------------------------------------

POOL = {
    "int": (["0", "5", "60", "-1", " 7", "+3", "2147483647", "-2147483648"],
            ["", "abc", "12abc", "1.5", "2147483648", "-2147483649", "99999999999999999999", "5 ", "0x10", "1e3", "--1"]),
    "int64": (["0", "1048576", "-1", "9223372036854775807", "-9223372036854775808", " 5"],
              ["", "x", "12abc", "1.5", "9223372036854775808", "18446744073709551615", "-9223372036854775809", "1e3", "5 "]),
    "ms": (["0", "10", "1500", "-1", "9223372036854775807"], ["", "1.5", "10ms", "9223372036854775808", "abc"]),
    "uint": (["0", "15", "2147483647", "+4"], ["-1", "", "12abc", "1.25", "2147483648", "abc", "5 "]),
    "pct100": (["0", "80", "99"], ["100", "-1", "80abc", "8.5", "", "1e1"]),
    "double": (["0.1", "1.25", "-0.5", "1e3", "1E3", ".5", "5.", "0x1p-2", "10", "0", "inf", "nan", "1e308"],
               ["", "abc", "1.5abc", "1e999", "1e-999", "1.5 ", "0.1.2", "e5"]),
    "float": (["0.85", "1.25", "0.5", "2", "1e3", ".5", "0x1p-2", "3.4028235e38", "inf"],
              ["", "abc", "1.5abc", "1e39", "1e-46", "1e999", "0.5f", "1,5"]),
    "bool": (["true", "True", "1", "false", "False", "0"], ["yes", "TRUE", "", "2", "no", "tRue", " true"]),
    "resource": (["io", "memory"], ["cpu", "IO", "", "memory ", "mem"]),
    "cgroup": (["a", "a/b,c", "system.slice/*", "workload.slice/workload-*.slice,system.slice", "/", ",,a,,", "a//b/", ""], []),
    "sizepct": (["10%", "0%", "100%", "5", "5M", "1.5G 32K", "512", "8796093022207", "1K", "+5", "0x10", "1e3", " 5%", "-5M",
                 "8388607T 1023G 1023M 1023K 1023", "4194304T 4194303T 1023G 1023M 1023.5K 512"],
                ["8388607T 8388607T 2T 5K", "4194304T 4194304T 4194304T 4194304T 1", "8388607T 1T", "17592186044416", "17592186044421",
                 "101%", "5.5%", "-1%", "1e30", "nan", "inf", "", "9999999999999", "8796093022208", "9223372036854775807K", "99999999999T",
                 "5%z", "5 %", "abc", "1.5MK", "5x%", "1e1%"]),
    "string": (["x", "", "foo bar"], []),
    "nonempty": (["foo.service", "x"], [""]),
    "unknown": ([], ["x"]),
}


def pick_ok(rng, kind):
    """a valid value of the kind; 64-bit kinds (and free strings) are often a random integer that no double represents"""
    if kind in ("int64", "ms", "string") and rng.random() < 0.35:
        n = rng.choice([rng.randint(2 ** 53, 2 ** 63 - 1) | 1, -(rng.randint(2 ** 53, 2 ** 63 - 1) | 1), 2 ** 53 + 1, 10 ** 17 + 3])
        if kind == "string" and rng.random() < 0.3:
            n = rng.randint(2 ** 63, 2 ** 64 - 1) | 1
        return "%d" % n
    ok = POOL[kind][0]
    return rng.choice(ok) if ok else "x"


def valid_base(rng, sch):
    """a valid argument assignment: required arguments, plus cgroup when declared"""
    name, hook, kill, checks, args = sch
    a = {}
    for an, req, kind in args:
        if req or an == "cgroup" and rng.random() < 0.8:
            a[an] = pick_ok(rng, kind)
    if name in ("memory_above", "kill_by_swap_usage"):
        a["meminfo_location"] = "@MEMINFO"
    return a


def plugin_variants(rng, sch, tier):
    """(args, extra scenario fields) for one plugin"""
    name, hook, kill, checks, args = sch
    out = []
    base = valid_base(rng, sch)
    out.append((dict(base), {}))
    # optional arguments, valid values
    for _ in range(2 if tier == "quick" else 6):
        a = dict(base)
        for an, req, kind in args:
            if not req and POOL[kind][0] and rng.random() < 0.5:
                a[an] = pick_ok(rng, kind)
        out.append((a, {}))
    # each required argument missing
    for an, req, kind in args:
        if req:
            a = dict(base)
            a.pop(an, None)
            out.append((a, {}))
    # unknown arguments
    for bogus in (["bogus"] if tier == "quick" else ["bogus", "Cgroup", "cgroup ", "", "threshold_anon", "meminfo_location", "negate"]):
        a = dict(base)
        if bogus not in a:
            a[bogus] = "1"
            out.append((a, {}))
    # each argument with values of its kind (valid and invalid)
    for an, req, kind in args:
        ok, bad = POOL[kind]
        vals = ok + bad
        if tier == "quick":
            vals = rng.sample(ok, min(2, len(ok))) + rng.sample(bad, min(3, len(bad)))
        for v in vals:
            a = dict(base)
            a[an] = v
            out.append((a, {}))
    if name == "memory_above":
        for th in (["10%", "5.5%"] if tier == "quick" else POOL["sizepct"][0] + POOL["sizepct"][1]):
            a = dict(base)
            a.pop("threshold", None)
            a["threshold_anon"] = th
            out.append((a, {}))
            a2 = dict(a)
            a2["threshold"] = rng.choice(["1G", "garbage", "50%"])
            out.append((a2, {}))
        a = dict(base)
        a.pop("threshold", None)
        out.append((a, {}))
    if name in ("memory_above", "kill_by_swap_usage"):
        for th in ["8388607T 8388607T 2T 5K", "4194304T 4194304T 4194304T 4194304T", "8388607T 1T", "17592186044416", "17592186044421",
                   "8388607T 1023G 1023M 1023K 1023"] + overflow_sizes(rng, 12 if tier == "quick" else 200):
            a = dict(base)
            a["threshold"] = th
            out.append((a, {}))
            if name == "memory_above":
                a2 = dict(base)
                a2.pop("threshold", None)
                a2["threshold_anon"] = th
                out.append((a2, {}))
        for kb in ["70368744177663", "4194305"]:
            a = dict(base)
            a["threshold"] = rng.choice(["33%", "99%", "100%", "1%"])
            out.append((a, {"memtotal_kb": kb, "swaptotal_kb": "2097151"}))
            # totals beyond 2^31 / 2^32 bytes (the int truncation of SwapTotal was repaired under C09)
            out.append((dict(a), {"memtotal_kb": kb, "swaptotal_kb": rng.choice(["2097153", "4194305", "8388609", "70368744177663"])}))
        a = dict(base)
        a["meminfo_location"] = "/nonexistent/meminfo"
        out.append((a, {"meminfo_missing": True}))
        for kb in ["1", "123457", "2097151"]:
            a = dict(base)
            a["threshold"] = rng.choice(["1%", "33%", "99%", "100%"])
            out.append((a, {"memtotal_kb": kb, "swaptotal_kb": kb}))
    return out


def gen_init(rng, tier):
    for sch in schemas():
        for a, extra in plugin_variants(rng, sch, tier):
            yield dict({"kind": "init", "plugin": sch[0], "hook": sch[1], "args": a}, **extra)
    for nm, hook in [("no_such_plugin", False), ("", False), ("dummy_prekill_hook", False), ("exists", True), ("Exists", False), ("exists ", False)]:
        yield {"kind": "init", "plugin": nm, "hook": hook, "args": {"cgroup": "a"}}


# ------------------------------------------------------------------------------------------------
# IRs and documents
# ------------------------------------------------------------------------------------------------

DELAYS = (["", "", "", "0", "10", "40", " 5", "+7", "2147483647"], ["-1", "abc", "10abc", "1.5", "99999999999", "5 ", "2147483648", "0x10"])
SILENCE = (["", "", "engine", "plugins", "engine,plugins", " engine , plugins ", "engine,,plugins", ",", "  ",
            "engine,engine", "plugins,plugins", "engine,plugins,engine", "plugins,engine,plugins,engine", "plugins, plugins ,plugins"], ["bogus", "engine,bogus", "Engine", "engine plugins"])
DETECTORS = None
ACTIONS = None


def rand_plugin(rng, want_kill, p_bad):
    cands = [s for s in schemas() if not s[1] and (not want_kill or s[2] or s[0] in ("continue", "stop", "systemd_restart"))]
    sch = rng.choice(cands)
    if rng.random() < p_bad:
        a, extra = rng.choice(plugin_variants(rng, sch, "quick"))
        if extra:
            a = valid_base(rng, sch)
    else:
        a = valid_base(rng, sch)
        for an, req, kind in sch[4]:
            if not req and POOL[kind][0] and rng.random() < 0.3:
                a[an] = pick_ok(rng, kind)
    nm = sch[0]
    if rng.random() < p_bad * 0.3:
        nm = rng.choice(["", "no_such_plugin", nm.upper()])
    return {"name": nm, "args": a}


def pick(rng, pool, p_bad):
    ok, bad = pool
    return rng.choice(bad) if rng.random() < p_bad else rng.choice(ok)


def rand_ir_ruleset(rng, p_bad, dropin=False, name=None):
    dgs = []
    for _ in range(rng.choice([1, 1, 2]) if not dropin else rng.choice([0, 1])):
        dets = [rand_plugin(rng, False, p_bad) for _ in range(rng.choice([1, 1, 2, 0 if rng.random() < p_bad else 1]))]
        dgs.append({"name": "" if rng.random() < p_bad * 0.3 else "group%d" % rng.randint(1, 9), "detectors": dets})
    acts = [rand_plugin(rng, True, p_bad) for _ in range(rng.choice([1, 1, 2]) if not dropin else rng.choice([0, 1, 1]))]
    if not dropin and rng.random() < p_bad * 0.2:
        if rng.random() < 0.5:
            dgs = []
        else:
            acts = []
    return {"name": name if name is not None else ("" if rng.random() < p_bad * 0.3 else "ruleset %d" % rng.randint(1, 99)),
            "dgs": dgs, "acts": acts,
            "dropin": {"disable_on_drop_in": rng.random() < 0.3, "detectorgroups_enabled": rng.random() < 0.6, "actiongroup_enabled": rng.random() < 0.6},
            "silence_logs": pick(rng, SILENCE, p_bad * 0.3), "post_action_delay": pick(rng, DELAYS, p_bad * 0.5),
            "prekill_hook_timeout": pick(rng, DELAYS, p_bad * 0.5), "xattr_filter": rng.choice(["", "", "user.oomd"]),
            "cgroup": rng.choice(["", "", "workload.slice/*", "/"])}


def rand_ir(rng, p_bad):
    rs = [rand_ir_ruleset(rng, p_bad) for _ in range(rng.choice([1, 1, 2, 3, 0 if rng.random() < 0.1 else 1]))]
    hooks = []
    if rng.random() < 0.4:
        if rng.random() < max(p_bad, 0.0) * 1.5:
            hooks.append({"name": rng.choice(["dummy_prekill_hook", "nope", "", "exists"]), "args": rng.choice([{}, {"cgroup": "a/*,b"}, {"cgroup": "x", "bogus": "1"}])})
        else:
            hooks.append({"name": "dummy_prekill_hook", "args": rng.choice([{}, {"cgroup": "a/*,b"}, {"cgroup": "/"}])})
    return {"rulesets": rs, "prekill_hooks": hooks}


def ir_to_doc(rng, ir, stringly=True):
    """render an IR in the JSON grammar of docs/configuration.md; scalar arguments sometimes as JSON numbers / bools"""
    def val(v):
        # jsoncpp keeps integers of [-2^63, 2^64) exactly (intValue / uintValue) and asString() renders them exactly; anything
        # wider is read as a real, whose rendering is not modelled
        if not stringly and re.fullmatch(r"-?[1-9][0-9]{0,19}|0", v) and -2 ** 63 <= int(v) < 2 ** 64 and rng.random() < 0.5:
            return int(v)
        if not stringly and v in ("true", "false") and rng.random() < 0.5:
            return v == "true"
        return v

    def plug(p):
        d = {"name": p["name"]}
        if p["args"] or rng.random() < 0.7:
            d["args"] = {k: val(v) for k, v in p["args"].items()}
        return d
    doc = {"rulesets": []}
    for r in ir["rulesets"]:
        j = {"name": r["name"]}
        di = r["dropin"]
        if any(di.values()) or rng.random() < 0.3:
            j["drop-in"] = {"disable-on-drop-in": di["disable_on_drop_in"], "detectors": di["detectorgroups_enabled"], "actions": di["actiongroup_enabled"]}
        for k, jk in (("silence_logs", "silence-logs"), ("post_action_delay", "post_action_delay"), ("prekill_hook_timeout", "prekill_hook_timeout"),
                      ("xattr_filter", "xattr_filter"), ("cgroup", "cgroup")):
            if r[k] != "":
                j[jk] = val(r[k])
        if r["dgs"] or rng.random() < 0.8:
            j["detectors"] = [[g["name"]] + [plug(p) for p in g["detectors"]] for g in r["dgs"]]
        if r["acts"] or rng.random() < 0.8:
            j["actions"] = [plug(p) for p in r["acts"]]
        doc["rulesets"].append(j)
    if ir["prekill_hooks"] or rng.random() < 0.2:
        doc["prekill_hooks"] = [plug(p) for p in ir["prekill_hooks"]]
    return doc


def desktop_doc():
    t = open(os.path.join(core.REPO, "src/oomd/etc/desktop.json")).read()
    t = re.sub(r"^\s*//.*$", "", t, flags=re.M)
    d = json.loads(t)
    for r in d["rulesets"]:
        for p in r.get("actions", []) + [x for g in r.get("detectors", []) for x in g[1:]]:
            if p.get("name") in ("memory_above", "kill_by_swap_usage"):
                p.setdefault("args", {})["meminfo_location"] = "@MEMINFO"
    return d


SHAPES = [None, True, False, 0, 5, -1, "x", "", [], {}, [1], ["a", {}], {"a": 1}, {"name": 7}, [[]], 123456789012]


def positions(v, path=()):
    yield path
    if isinstance(v, dict):
        for k in sorted(v):
            yield from positions(v[k], path + (k,))
    elif isinstance(v, list):
        for i, x in enumerate(v):
            yield from positions(x, path + (i,))


def set_at(doc, path, new, delete=False):
    d = copy.deepcopy(doc)
    if not path:
        return new
    cur = d
    for p in path[:-1]:
        cur = cur[p]
    if delete:
        if isinstance(cur, dict):
            del cur[path[-1]]
        else:
            cur.pop(path[-1])
    else:
        cur[path[-1]] = new
    return d


def load_scenario(doc):
    return {"kind": "load", "text": json.dumps(doc), "tree": doc}


def gen_load(rng, tier):
    base_docs = [desktop_doc()]
    for _ in range(3 if tier == "quick" else 12):
        base_docs.append(ir_to_doc(rng, rand_ir(rng, 0.0), stringly=rng.random() < 0.5))
    for d in base_docs:
        yield load_scenario(d)
    # wrong value shape at every position
    for di, d in enumerate(base_docs):
        pos = list(positions(d))
        if tier == "quick":
            budget = 500 if di == 0 else 200
            choices = [(p, s) for p in pos for s in SHAPES]
            rng.shuffle(choices)
            choices = choices[:budget]
        else:
            choices = [(p, s) for p in pos for s in SHAPES]
        for p, s in choices:
            yield load_scenario(set_at(d, p, s))
        for p in pos if tier != "quick" else rng.sample(pos, min(60, len(pos))):
            if p:
                yield load_scenario(set_at(d, p, None, delete=True))
    # documents from IRs with invalid parts
    for _ in range({"quick": 500, "thorough": 8000, "search": 3000}[tier]):
        yield load_scenario(ir_to_doc(rng, rand_ir(rng, rng.choice([0.0, 0.1, 0.3])), stringly=rng.random() < 0.6))
    # texts that are not JSON
    good = json.dumps(base_docs[1])
    for _ in range(40 if tier == "quick" else 400):
        r = rng.random()
        if r < 0.4:
            t = good[:rng.randint(0, len(good) - 1)]
        elif r < 0.7:
            i = rng.randint(0, len(good) - 1)
            t = good[:i] + rng.choice("{}[],:\"x") + good[i + 1:]
        else:
            t = rng.choice(["", " ", "not a json string", "{", "[", "{\"rulesets\":", "nul", "{\"rulesets\": [}", "\"", "{,}", "[1,]", "{\"a\" 1}", "\x00"])
        sc = {"kind": "load", "text": t}
        try:
            sc["tree"] = json.loads(t, parse_constant=lambda c: (_ for _ in ()).throw(ValueError(c)))
            if has_float(sc["tree"]):
                del sc["tree"]
        except ValueError:
            pass
        yield sc
    for t in ["null", "[]", "5", "\"x\"", "true", "{}", "{\"rulesets\": null}", "{\"rulesets\": {}}", "{\"rulesets\": [], \"prekill_hooks\": 5}"]:
        yield {"kind": "load", "text": t, "tree": json.loads(t)}


def has_float(v):
    if isinstance(v, float):
        return True
    if isinstance(v, dict):
        return any(has_float(x) for x in v.values())
    if isinstance(v, list):
        return any(has_float(x) for x in v)
    if isinstance(v, int) and not isinstance(v, bool) and not (-2 ** 63 <= v < 2 ** 64):
        return True
    return False


def gen_dropin(rng, tier):
    n = {"quick": 400, "thorough": 6000, "search": 2000}[tier]
    for _ in range(n):
        base_ir = rand_ir(rng, 0.0)
        if not base_ir["rulesets"]:
            continue
        base = ir_to_doc(rng, base_ir)
        # one file may carry several drop-in rulesets (each is compiled against the base on its own: an unknown target,
        # an unnamed ruleset or a bad plugin in ANY of them rejects the whole file - also after an earlier one was fine)
        drs = []
        p_bad = rng.choice([0.0, 0.0, 0.2, 0.5])
        for _ in range(rng.choice([1, 1, 1, 2, 2, 3])):
            target = rng.choice(base_ir["rulesets"])
            nm = target["name"] if rng.random() < 0.85 else rng.choice(["nope", "", target["name"] + " "])
            drs.append(rand_ir_ruleset(rng, p_bad, dropin=True, name=nm))
        dir_ = {"rulesets": drs if rng.random() < 0.95 else [], "prekill_hooks": []}
        if rng.random() < 0.2:
            dir_["prekill_hooks"].append({"name": rng.choice(["dummy_prekill_hook", "nope"]), "args": rng.choice([{}, {"cgroup": "a"}, {"bogus": "1"}])})
        ddoc = ir_to_doc(rng, dir_, stringly=rng.random() < 0.7)
        sc = {"kind": "dropin", "base": json.dumps(base), "base_tree": base}
        r = rng.random()
        if r < 0.15:
            pos = list(positions(ddoc))
            ddoc = set_at(ddoc, rng.choice(pos), rng.choice(SHAPES))
        if r > 0.95:
            t = json.dumps(ddoc)
            sc["dropin"] = t[:rng.randint(0, len(t) - 1)]
        else:
            sc["dropin"] = json.dumps(ddoc)
            sc["dropin_tree"] = ddoc
        yield sc


def gen_compile(rng, tier):
    n = {"quick": 1200, "thorough": 20000, "search": 6000}[tier]
    for _ in range(n):
        yield {"kind": "compile", "ir": rand_ir(rng, rng.choice([0.0, 0.05, 0.15, 0.4]))}


def gen_cgroup(rng, tier):
    for s in ["", "a", "a,b", "a,,b", ",", "a/b/,c//d", "/", "/,/", "a*,b?", "a,a", "a/,a", " a, b "]:
        yield {"kind": "cgroup", "fs": "/sys/fs/cgroup", "s": s}
    for _ in range(100 if tier == "quick" else 3000):
        yield {"kind": "cgroup", "fs": rng.choice(["/sys/fs/cgroup", "/sys/fs/cgroup/", "/"]),
               "s": "".join(rng.choice("ab/,*. ") for _ in range(rng.randint(0, 12)))}


def gen(rng, tier):
    bsz = 64
    yield from batches(BOUNDARY, TOTALS, 32)
    if tier == "quick":
        yield from batches(sum_strings(rng, 1500), TOTALS, bsz)
        yield from batches(all_strings(ALPHA, 4), TOTALS, bsz)
        yield from batches(rand_strings(rng, 6000), TOTALS, bsz)
    elif tier == "thorough":
        yield from batches(sum_strings(rng, 60000), TOTALS, 256)
        yield from batches(all_strings(ALPHA, 5), TOTALS, 256)
        yield from batches(all_strings(ALPHA6, 6, 6), TOTALS, 256)
        yield from batches(rand_strings(rng, 200000), TOTALS, 256)
    else:
        yield from batches(sum_strings(rng, 20000), TOTALS, bsz)
        yield from batches(all_strings(ALPHA, 3), TOTALS, bsz)
        yield from batches(rand_strings(rng, 60000), TOTALS, bsz)
    yield from gen_cgroup(rng, tier)
    yield from gen_init(rng, tier)
    yield from gen_compile(rng, tier)
    yield from gen_load(rng, tier)
    yield from gen_dropin(rng, tier)


# ------------------------------------------------------------------------------------------------
# hooks of the generic runner
# ------------------------------------------------------------------------------------------------

def nontrivial(s, t, v):
    k = s["kind"]
    if k == "strs":
        szs = [r.split("\t", 1)[0] for r in t.get("rs", [])]
        return any(x == "R" for x in szs) and any(x not in ("R", None) for x in szs)
    if k == "cgroup":
        return len(t.get("paths", [])) >= 2
    if k == "init":
        return bool(s["args"])
    if k == "compile":
        return t.get("r") in ("accepted", "rejected") and any(r["acts"] for r in s["ir"]["rulesets"])
    if k == "load":
        return t.get("stage") == "compile"
    if k == "dropin":
        return t.get("r") in ("accepted", "rejected")
    return False


def bucket(s, t, v):
    k = s["kind"]
    b = [k]
    if k == "strs":
        if v.get("inexact_domain"):
            b.append("strs:batch-with-inexact-domain-size")
    else:
        b.append("%s:%s" % (k, str(t.get("r", t.get("outcome")))[:40]))
    return b


def extra_coverage(results):
    n = sum(len(s["ss"]) for s, t, v in results if s["kind"] == "strs")
    inexact = sum(v.get("inexact_domain", 0) for s, t, v in results if s["kind"] == "strs")
    acc = sum(1 for s, t, v in results for r in t.get("rs", []) if r.split("\t", 1)[0] != "R")
    return {"strings": n, "sizes_accepted": acc, "sizes_outside_exact_domain": inexact,
            "string_parser_evaluations": n * 17}


def shrink_candidates(s):
    k = s["kind"]
    if k == "strs":
        if len(s["ss"]) > 1:
            for x in s["ss"]:
                yield dict(s, ss=[x])
        else:
            x = s["ss"][0]
            for i in range(len(x)):
                yield dict(s, ss=[x[:i] + x[i + 1:]])
    elif k == "init":
        for a in list(s["args"]):
            if a != "meminfo_location":
                d = dict(s["args"])
                del d[a]
                yield dict(s, args=d)
    elif k == "compile":
        ir = s["ir"]
        for i in range(len(ir["rulesets"])):
            yield dict(s, ir=dict(ir, rulesets=ir["rulesets"][:i] + ir["rulesets"][i + 1:]))
        if ir["prekill_hooks"]:
            yield dict(s, ir=dict(ir, prekill_hooks=[]))
        for i, r in enumerate(ir["rulesets"]):
            for key in ("dgs", "acts"):
                if len(r[key]) > 1:
                    for j in range(len(r[key])):
                        r2 = dict(r, **{key: r[key][:j] + r[key][j + 1:]})
                        yield dict(s, ir=dict(ir, rulesets=ir["rulesets"][:i] + [r2] + ir["rulesets"][i + 1:]))
            for key in ("silence_logs", "post_action_delay", "prekill_hook_timeout", "xattr_filter", "cgroup"):
                if r[key]:
                    r2 = dict(r, **{key: ""})
                    yield dict(s, ir=dict(ir, rulesets=ir["rulesets"][:i] + [r2] + ir["rulesets"][i + 1:]))
    elif k == "load" and "tree" in s and isinstance(s["tree"], (dict, list)):
        d = s["tree"]
        for p in positions(d):
            if p:
                try:
                    yield load_scenario(set_at(d, p, None, delete=True))
                except Exception:
                    pass

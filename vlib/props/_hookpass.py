"""Second pass of a kill-family property (C01, C03, C04, C17) on the hook engine (h_hook / drv_hook).

h_kill configures no prekill hook, so everything a kill plugin does when a hook defers the kill - serialising the victim and
the candidate stack, resuming on a later tick, restoring by (path, id), cgroups removed / re-created meanwhile - is not run
there.  The clauses of the property for that path are evaluated by the hook driver on the C07 scenario space; the scenario's
`prop` field (and `want_prefix` here) select them, the hook clauses proper stay C07's."""
import json
import os
import random
import sys

from .. import core


def scenarios(rng, tier, prop, tweak=None):
    from . import C07
    n = {"quick": 1500, "thorough": 20000, "search": 4000}[tier]
    for _ in range(n):
        s = C07.gen_one(rng, tier)
        s["prop"] = prop
        if tweak:
            tweak(rng, s)
        yield s


def run(mod, tier, seed, replay, want_prefix, label, rule_text, tweak=None, extra_cov=None):
    from . import C07
    prop = mod.PROP

    def want(c):
        return c.startswith(want_prefix)
    if replay:
        rp = json.load(open(replay))
        if rp.get("pass") == label:
            viol, _, _ = core.extra_pass(prop, "hook", "h_hook", "asan", [rp["scenario"]], tier, seed, want=want, label=label)
            for c, p in viol:
                print("VIOLATION property=%s replay=%s" % (prop, p))
            return 1 if viol else 0
        return core.run_check(mod, tier, seed, replay)
    rc = core.run_check(mod, tier, seed, replay)
    esc = tier == "quick" and core.changed_sources() and not os.environ.get("VERIF_NO_ESCALATION")
    scs = list(scenarios(random.Random(seed * 6037 + sum(map(ord, prop + label))), "search" if esc else tier, prop, tweak))
    viol, cov, res = core.extra_pass(prop, "hook", "h_hook", "asan", scs, tier, seed, want=want,
                                     shrink_candidates=C07.shrink_candidates, label=label)
    cov[label + "_pass_cycles_that_waited"] = sum(1 for s, t, v in res if "ticks_waited" in (v.get("tags") or []))
    cov[label + "_pass_fallback_after_wait"] = sum(1 for s, t, v in res if "fallback_fires" in (v.get("tags") or [])
                                                   and "ticks_waited" in (v.get("tags") or []))
    if extra_cov:
        cov.update(extra_cov(res))
    core.merge_extra_into_evidence(prop, cov, len(viol), rule_text)
    for c, p in viol:
        print("VIOLATION property=%s replay=%s" % (prop, p))
    return 1 if (rc or viol) else 0

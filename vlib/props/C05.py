"""C05 (engine family) - see vlib/props/_engine.py, lean/OomdModel/Engine.lean, lean/OomdProps/C05.lean."""
from vlib.props import _engine as E
from vlib.props._engine import ENGINE, HARNESS, FLAVOUR, ASSUMPTIONS, TRUSTED, bucket, shrink_candidates  # noqa: F401

PROP = "C05"
EXHAUSTIVE = {"quick": False, "thorough": False}


def gen(rng, tier):
    return E.gen(rng, tier, PROP)
RULE = ("as C02; delays 0/1/2/5/15/30 s and plugin-own delays 0/1/3/7/30 s, gaps in whole seconds so that ticks land exactly "
        "at t+d. non-trivial = at least one STOP followed by a later tick")


def nontrivial(s, t, v):
    na, ns, nas = E.stats(s, t)
    return ns >= 1 and na >= 2

"""C05 (engine family) - see vlib/props/_engine.py, lean/OomdModel/Engine.lean, lean/OomdProps/C05.lean."""
from vlib.props import _engine as E
from vlib.props._engine import ENGINE, HARNESS, FLAVOUR, ASSUMPTIONS, TRUSTED, bucket, shrink_candidates  # noqa: F401

PROP = "C05"
EXHAUSTIVE = {"quick": False, "thorough": False}


def gen(rng, tier):
    return E.gen(rng, tier, PROP)
RULE = ("as C02; delays 0/1/2/5/15/30 s and plugin-own delays 0/1/3/7/30 s, gaps in whole seconds so that ticks land exactly "
        "at t+d. non-trivial = at least one STOP followed by a later tick")


def nontrivial(s, t, v):
    na, ns, nas = E.stats(s, t)
    return ns >= 1 and na >= 2


# ---- the plugin side of the protocol: the real kill plugins call pause_actions only right before STOP --------------------
#
# The engine theorems of C05 (and h_engine's scripted plugins) assume the protocol of BaseKillPlugin::run: a plugin overrides
# its ruleset's delay (Ruleset::pause_actions) only immediately before it returns STOP.  A kill plugin that pauses its ruleset
# and then returns CONTINUE (always_continue) leaves the override flag set for a later, unrelated STOP - the delay of the
# stopping action is then not the one C05 names.  That the five real kill plugins keep the protocol is decided on the kill
# engine (h_kill, real plugins, interposed pause_actions): clause C05.pause_only_before_stop; nothing else of that engine
# counts here.

def kill_scenarios(rng, tier):
    from . import _kill
    n = {"quick": 1500, "thorough": 20000, "search": 4000}[tier]
    for _ in range(n):
        s = _kill.gen_one(rng, tier, PROP, "base")
        a = s["cfg"]["args"]
        # the interesting corner: a kill that succeeds, does not stop its chain, and has a delay of its own
        if rng.random() < 0.5:
            a["always_continue"] = "true"
        if rng.random() < 0.7:
            a["post_action_delay"] = str(rng.choice([0, 1, 7, 30]))
        s["ctx"]["has_ruleset"] = True
        yield s


# ---- ruleset-cgroup rulesets: the pause is per matching cgroup ----------------------------------------------------------
#
# "(per matching cgroup, for ruleset-cgroup rulesets)": decided on C11's engine (h_rscgroup: real compiler, Engine and
# Ruleset over a scratch tree, virtual clock), with calm trees so that instances live long enough to be paused and resumed.
# Clauses C05.percg_* of lean/Driver/Rscgroup.lean: inside [t, t+d) of an instance its detectors run on every tick and none
# of its actions does; from t+d on a firing instance runs its actions again.

def percg_scenarios(rng, tier):
    from . import C11
    n = {"quick": 1500, "thorough": 15000, "search": 4000}[tier]
    S = C11.S
    for _ in range(n):
        s = C11.mk_scenario(rng, calm=rng.random() < 0.85, nticks=rng.randint(4, 10))
        s["prop"] = PROP
        # whole-second gaps so that ticks land exactly on t+d
        for t in s["ticks"]:
            if rng.random() < 0.7:
                t["gap"] = rng.choice([S, S, 2 * S, 3 * S, 5 * S, 7 * S, 15 * S])
        yield s


def run(tier, seed, replay=None):
    import json
    import os
    import random
    import sys
    from vlib import core
    from . import _kill
    mod = sys.modules[__name__]

    def want(c):
        return c.startswith("C05.")
    if replay:
        rp = json.load(open(replay))
        if rp.get("pass") == "percg":
            viol, _, _ = core.extra_pass(PROP, "rscgroup", "h_rscgroup", "asan", [rp["scenario"]], tier, seed, want=want, label="percg")
            for c, p in viol:
                print("VIOLATION property=%s replay=%s" % (PROP, p))
            return 1 if viol else 0
        if rp.get("pass") == "killproto":
            viol, _, _ = core.extra_pass(PROP, "kill", "h_kill", "asan", [rp["scenario"]], tier, seed, want=want, label="killproto")
            for c, p in viol:
                print("VIOLATION property=%s replay=%s" % (PROP, p))
            return 1 if viol else 0
        return core.run_check(mod, tier, seed, replay)
    rc = core.run_check(mod, tier, seed, replay)
    esc = tier == "quick" and core.changed_sources() and not os.environ.get("VERIF_NO_ESCALATION")
    scs = list(kill_scenarios(random.Random(seed * 6029 + 23), "search" if esc else tier))
    viol, cov, res = core.extra_pass(PROP, "kill", "h_kill", "asan", scs, tier, seed, want=want,
                                     shrink_candidates=_kill.shrink_candidates, label="killproto")
    cov["killproto_pass_pause_calls"] = sum(1 for s, t, v in res for r in t.get("runs", []) for tk in r.get("ticks", [])
                                            if tk.get("pause") is not None)
    cov["killproto_pass_always_continue_kills"] = sum(1 for s, t, v in res if s["cfg"]["args"].get("always_continue") == "true"
                                                      and any(e["ev"] == "kill" and e["rc"] == 0 for e in _kill.all_events(t)))
    core.merge_extra_into_evidence(PROP, cov, len(viol),
                                   "plugin-protocol pass (the five real kill plugins, h_kill): the C01 scenario space with "
                                   "always_continue in half and a plugin-own post_action_delay in 70% of the scenarios; clause: "
                                   "pause_actions is called only in a run() that returns STOP")
    from . import C11
    scs2 = list(percg_scenarios(random.Random(seed * 7121 + 3), "search" if esc else tier))
    viol2, cov2, res2 = core.extra_pass(PROP, "rscgroup", "h_rscgroup", "asan", scs2, tier, seed, want=want,
                                        shrink_candidates=C11.shrink_candidates, label="percg")
    cov2["percg_pass_paused_instance_ticks"] = sum(int(v.get("paused_ticks", 0)) for s, t, v in res2)
    core.merge_extra_into_evidence(PROP, cov2, len(viol2),
                                   "per-cgroup pass (ruleset-cgroup rulesets on h_rscgroup, C11's scenario space with calm trees and "
                                   "whole-second gaps): inside the pause of an instance its detectors run every tick and no action of "
                                   "it does; from t+d on its actions run again")
    viol = viol + viol2
    for c, p in viol:
        print("VIOLATION property=%s replay=%s" % (PROP, p))
    return 1 if (rc or viol) else 0

"""C02 (engine family) - see vlib/props/_engine.py, lean/OomdModel/Engine.lean, lean/OomdProps/C02.lean."""
from vlib.props import _engine as E
from vlib.props._engine import ENGINE, HARNESS, FLAVOUR, ASSUMPTIONS, TRUSTED, bucket, shrink_candidates  # noqa: F401

PROP = "C02"
EXHAUSTIVE = {"quick": False, "thorough": False}


def gen(rng, tier):
    return E.gen(rng, tier, PROP)
RULE = ("1-4 rulesets x 1-3 groups x 1-3 detectors x 1-4 actions of scripted plugins compiled by the real ConfigCompiler; "
        "3-14 ticks with per-call return values / clock advances / gaps (thorough adds the exhaustive 3-tick space of one "
        "ruleset with 2 actions). non-trivial = at least one action chain ran and at least one tick had a firing group with "
        "no chain start or vice versa")


def nontrivial(s, t, v):
    na, ns, nas = E.stats(s, t)
    return na >= 2 and len(s["rulesets"]) >= 1

"""C02 (engine family) - see vlib/props/_engine.py, lean/OomdModel/Engine.lean, lean/OomdProps/C02.lean."""
from vlib.props import _engine as E
from vlib.props._engine import ENGINE, HARNESS, FLAVOUR, ASSUMPTIONS, TRUSTED, bucket, shrink_candidates  # noqa: F401

PROP = "C02"
EXHAUSTIVE = {"quick": False, "thorough": False}


def gen(rng, tier):
    return E.gen(rng, tier, PROP)
RULE = ("1-4 rulesets x 1-3 groups x 1-3 detectors x 1-4 actions of scripted plugins compiled by the real ConfigCompiler; "
        "3-14 ticks with per-call return values / clock advances / gaps (thorough adds the exhaustive 3-tick space of one "
        "ruleset with 2 actions). non-trivial = at least one action chain ran and at least one tick had a firing group with "
        "no chain start or vice versa")


def nontrivial(s, t, v):
    na, ns, nas = E.stats(s, t)
    return na >= 2 and len(s["rulesets"]) >= 1


# ---- drop-ins coming and going through the real main loop: decided on the drop-in engine ---------------------------------
#
# h_engine has no drop-ins.  That the rulesets `prerun` walks on a tick are the rulesets `runOnce` evaluates on that tick - also
# on the tick a drop-in is applied or removed - is decided on the C13 engine (h_dropin) in main_loop mode, where the real
# Oomd::run calls updateDropIns / prerun / runOnce in its own order.  Only the C02.* clause of that driver counts here.

def dropin_scenarios(rng, tier):
    from . import C13
    n = {"quick": 600, "thorough": 10000, "search": 2500}[tier]
    for i in range(n):
        s = C13.random_history(rng, 25 if i % 4 else 6)
        # plain rulesets only: a ruleset-cgroup ruleset preruns its template as well as its instances (C11), which this
        # pass's counting clause does not model
        s.pop("tree", None)
        for b in s["rulesets"]:
            b.pop("cgroup", None)
        s["prop"] = PROP
        s["main_loop"] = True
        yield s


def run(tier, seed, replay=None):
    import json
    import os
    import random
    import sys
    from vlib import core
    from . import C13
    mod = sys.modules[__name__]

    def want(c):
        return c.startswith("C02.")
    if replay:
        rp = json.load(open(replay))
        if rp.get("pass") == "dropinloop":
            viol, _, _ = core.extra_pass(PROP, "dropin", "h_dropin", "asan", [rp["scenario"]], tier, seed, want=want, label="dropinloop")
            for c, p in viol:
                print("VIOLATION property=%s replay=%s" % (PROP, p))
            return 1 if viol else 0
        return core.run_check(mod, tier, seed, replay)
    rc = core.run_check(mod, tier, seed, replay)
    esc = tier == "quick" and core.changed_sources() and not os.environ.get("VERIF_NO_ESCALATION")
    scs = list(dropin_scenarios(random.Random(seed * 6043 + 31), "search" if esc else tier))
    viol, cov, res = core.extra_pass(PROP, "dropin", "h_dropin", "asan", scs, tier, seed, want=want,
                                     shrink_candidates=getattr(C13, "shrink_candidates", None), label="dropinloop")
    cov["dropinloop_pass_operations"] = sum(len(t.get("ops", [])) for s, t, v in res)
    core.merge_extra_into_evidence(PROP, cov, len(viol),
                                   "drop-in pass (real Oomd::run with the scenario's drop-in adaptor, h_dropin main_loop): random "
                                   "add / re-add / remove histories; clause: on every tick each detector instance runs exactly as "
                                   "often as it was prerun (prerun and runOnce see the same rulesets)")
    for c, p in viol:
        print("VIOLATION property=%s replay=%s" % (PROP, p))
    return 1 if (rc or viol) else 0

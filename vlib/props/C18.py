"""C18 - Senpai throttling stays within its floor / ceiling and respects its guards (engine h_senpai).

Scenario = senpai arguments + MemTotal + a multi-tick history of a cgroup tree (statistics, pressure
files, swap limits up the hierarchy, which control files exist, cgroup identities) + SystemContext per
tick.  The real plugin (registry -> init -> run per tick) is observed at write(2); the Lean model
(OomdModel.Senpai, Float instance) must reproduce the write trace exactly (`accepts`) and an oracle in
exact arithmetic evaluates the property's clauses on the implementation's writes (`holds`).
"""

PROP = "C18"
ENGINE = "senpai"
HARNESS = "h_senpai"
FLAVOUR = "asan"
TIMEOUT = 600

RULE = ("seeded histories of 3-14 ticks over a tree w/{a,b,c,..}[/x] + unmatched decoys, patterns w/*, w/?, lists, "
        "nested; every senpai argument drawn from a small lattice incl. 0 / defaults / boundary values; both modes; "
        "memory.high.tmp and memory.reclaim present for none / all / some cgroups (sticky detection); files vanish "
        "for single ticks; cgroups removed, re-created with a new or recycled inode, new ids below tracked ids; "
        "external limit changes; pressure totals below / at / far above pressure_ms; PSI averages at target-1, "
        "target, target+1 hundredths; swap off / on, swap.max 0 / finite / max up the hierarchy, utilisation around "
        "swap_threshold; MemTotal absent / small / large; values up to 2^60.  non-trivial = at least one write by "
        "the plugin and at least two ticks")
ASSUMPTIONS = [
    "PSI files are in the upstream format with a total= field (the throwing path of getPressureTotalSome "
    "belongs to C10)",
    "argument values are well-formed decimal numbers (argument parsing is C12)",
    "byte statistics < 2^60 and max_backoff, max_probe <= 2, so that no int64 sum overflows and every "
    "double -> int64 conversion is in range (C18.floor_in_int64 / C18.ceil_in_int64)",
    "writes to the simulated control files never block or fail once the file could be opened; a write replaces "
    "the file content (kernfs semantics emulated by the harness)",
    "guard comparisons (pressure, swap utilisation, reclaim size) are judged by the oracle only where exact and "
    "IEEE evaluation agree; the count of skipped judgements is reported as `margin`",
]
TRUSTED = ["libstdc++ std::sort orders the resolved cgroups by id (modelled by List.mergeSort)",
           "IEEE double / float arithmetic of Lean's Float = C++ double on x86-64 (validated bit for bit by this run)",
           "harness interposition of write/open/fopen/fstat and its kernfs emulation (truncate before write)"]

PAGE = 4096
G = 1 << 30
M = 1 << 20


def pick(rng, items):
    """items: list of (weight, value)"""
    tot = sum(w for w, _ in items)
    r = rng.random() * tot
    for w, v in items:
        r -= w
        if r <= 0:
            return v
    return items[-1][1]


def dec_hundredths(s):
    """'0.1' -> 10 (target in hundredths of a percent point, rounded down)"""
    try:
        return int(float(s) * 100 + 1e-9)
    except ValueError:
        return 10


def gen_args(rng, mode):
    a = {}

    def opt(p, k, items):
        if rng.random() < p:
            a[k] = str(pick(rng, items))
    big = mode.get("big", False)
    opt(0.8, "limit_min_bytes", [(3, 0), (2, PAGE), (2, 100 * M), (1, 1 * G), (1, 12345), (1 if big else 0, 1 << 58)])
    opt(0.6, "limit_max_bytes", [(2, 10 * G), (2, 0), (2, 64 * M), (1, 1 * G), (1, 4097), (1 if big else 0, 1 << 59)])
    opt(0.9, "interval", [(3, 0), (4, 1), (3, 2), (1, 3), (1, 6)])
    opt(0.7, "pressure_ms", [(3, 10), (2, 1), (2, 5), (1, 100), (0.12, 0)])
    opt(0.6, "pressure_pct", [(3, "0.1"), (2, "0.05"), (1, "0.3"), (1, "1"), (1, "0.03"), (1, "0"), (1, "0.07")])
    opt(0.5, "io_pressure_pct", [(3, "0.1"), (2, "0.05"), (1, "0.3"), (1, "1"), (1, "0.03"), (1, "0")])
    opt(0.6, "max_probe", [(3, "0.01"), (2, "0.05"), (2, "0.5"), (1, "1"), (1, "0"), (1, "0.3"), (1, "2")])
    opt(0.5, "max_backoff", [(3, "1.0"), (2, "0.5"), (1, "2"), (1, "0.1"), (1, "0")])
    opt(0.4, "coeff_probe", [(3, "10"), (2, "1"), (1, "2.5"), (1, "100")])
    opt(0.4, "coeff_backoff", [(3, "20"), (2, "1"), (1, "5"), (1, "0.5")])
    opt(0.5, "swap_threshold", [(3, "0.8"), (2, "0.5"), (1, "0"), (1, "1"), (1, "0.25")])
    opt(0.4, "swapout_bps_threshold", [(3, 1 << 20), (2, 1000), (1, 0), (1, 1)])
    opt(0.1, "log_interval", [(1, 1), (1, 2), (1, 60)])
    if mode["immediate"]:
        a["immediate_backoff"] = pick(rng, [(3, "true"), (1, "True"), (1, "1")])
        if mode["swapval"]:
            a["swap_validation"] = "true"
        elif rng.random() < 0.2:
            a["swap_validation"] = "false"
        if mode["modulate"]:
            a["modulate_swappiness"] = "true"
        if rng.random() < 0.06:
            a["memory_high_timeout_ms"] = pick(rng, [(1, "0"), (2, "50")])
    else:
        if rng.random() < 0.15:
            a["immediate_backoff"] = pick(rng, [(1, "false"), (1, "0")])
        if rng.random() < 0.1:
            a["swap_validation"] = "true"        # ignored in this mode
        if rng.random() < 0.1:
            a["modulate_swappiness"] = "true"    # ignored in this mode
    return a


class Leaf:
    def __init__(self, rng, path, ino, mode, args):
        self.rng, self.path, self.ino, self.gen = rng, path, ino, 0
        self.present = True
        self.fresh = True
        big = mode.get("big", False)
        self.cur = pick(rng, [(6, rng.randrange(64 * M, 8 * G)), (2, rng.randrange(0, 4 * M)), (1, rng.randrange(0, 3 * PAGE)),
                              (3 if big else 0, rng.randrange(1 << 50, 1 << 60))])
        if rng.random() < 0.85:
            self.cur -= self.cur % PAGE
        self.ff = rng.choice([0.0, 0.1, 0.4, 0.7, 1.0])      # file fraction of usage
        self.af = rng.choice([0.0, 0.2, 0.5])                # anon fraction
        self.total = rng.randrange(0, 10 ** 9)
        self.tmp = mode["tmp"] == "all" or (mode["tmp"] == "some" and rng.random() < 0.5)
        self.reclaim = mode["reclaim"] == "all" or (mode["reclaim"] == "some" and rng.random() < 0.5)
        self.ctrl = pick(rng, [(8, "memory io"), (1, "cpu memory pids"), (1, "io"), (0.3, None)])
        self.mmin = pick(rng, [(6, 0), (1, self.cur // 2 - (self.cur // 2) % PAGE), (1, self.cur + 8 * M), (0.5, "max"), (1, 4096 * 3)])
        self.mmax = pick(rng, [(6, "max"), (1, self.cur + 256 * M), (1, max(0, self.cur - 16 * M)), (1, 12 * G)])
        self.swap_max = pick(rng, [(5, "max"), (2, 0), (3, rng.choice([1 * G, 64 * M, 4096]))])
        self.swap_cur = 0
        self.memhigh = pick(rng, [(6, "max"), (1, self.cur + 512 * M), (1, max(0, self.cur - 64 * M)), (1, self.cur)])
        self.args = args

    def entry(self, mode):
        rng = self.rng
        # usage walk
        if rng.random() < 0.6:
            d = int(self.cur * rng.choice([-0.2, -0.05, 0.0, 0.05, 0.3]))
            self.cur = max(0, self.cur + d)
            if rng.random() < 0.85:
                self.cur -= self.cur % PAGE
        cur = self.cur
        pus = int(self.args.get("pressure_ms", "10")) * 1000
        self.total += pick(rng, [(4, 0), (3, rng.randrange(0, max(1, pus))), (1, pus), (1, pus - 1), (2, pus * rng.choice([2, 7, 19, 40])),
                                 (0.4, -min(self.total, rng.randrange(0, 5000)))])
        self.total = max(0, self.total)
        tm = dec_hundredths(self.args.get("pressure_pct", "0.1"))
        ti = dec_hundredths(self.args.get("io_pressure_pct", "0.1"))

        def avg(t):
            return max(0, pick(rng, [(8, 0), (2, t - 1), (1.5, t), (1, t + 1), (1, 3 * t + 2), (0.5, 9999), (1, max(0, t // 2))]))
        if isinstance(self.swap_max, int) and self.swap_max > 0:
            thr = float(self.args.get("swap_threshold", "0.8"))
            self.swap_cur = pick(rng, [(3, 0), (2, int(self.swap_max * thr)), (2, int(self.swap_max * thr) - 1), (2, int(self.swap_max * thr) + 1),
                                       (2, self.swap_max // 3), (2, self.swap_max), (1, int(self.swap_max * 0.95))])
            self.swap_cur = max(0, self.swap_cur)
        elif self.swap_max == "max":
            self.swap_cur = pick(rng, [(3, 0), (2, rng.randrange(0, 2 * G))])
        filec = int(cur * self.ff)
        anon = int(cur * self.af)
        if rng.random() < 0.7:
            filec -= filec % PAGE
            anon -= anon % PAGE
        stat = {"active_file": filec // 3, "inactive_file": filec - filec // 3, "active_anon": anon // 2, "inactive_anon": anon - anon // 2,
                "pgscan": 0, "anon": anon, "file": filec}
        if rng.random() < 0.02:
            del stat[rng.choice(["active_anon", "inactive_anon", "active_file", "inactive_file"])]
        e = {"p": self.path, "ino": self.ino, "gen": self.gen, "ctrl": self.ctrl, "cur": cur, "min": self.mmin, "max": self.mmax,
             "stat": stat, "mp": [avg(tm), avg(tm), self.total], "iop": [avg(ti), avg(ti), rng.randrange(0, 1000)],
             "swap_max": self.swap_max, "swap_cur": self.swap_cur, "reclaim": self.reclaim}
        # limit files
        if self.tmp:
            e["high"] = self.memhigh
            if rng.random() < 0.05:
                self.memhigh = pick(rng, [(1, "max"), (1, cur + 64 * M), (1, max(0, cur - 32 * M))])
            e["hightmp"] = "max" if self.fresh else pick(rng, [(30, "echo"), (1, "max"), (1, cur), (1, 8 * PAGE), (0.5, None)])
        else:
            e["high"] = "max" if self.fresh and rng.random() < 0.8 else (
                rng.choice([cur, cur + PAGE, 5 * G]) if self.fresh else pick(rng, [(30, "echo"), (1, "max"), (1, cur), (1, 16 * PAGE), (0.5, None)]))
        self.fresh = False
        # a file vanishes for this tick
        if rng.random() < mode["fault"]:
            k = rng.choice(["cur", "min", "max", "stat", "mp", "iop", "swap_max", "swap_cur", "ctrl", "high", "hightmp", "reclaim"])
            if k in e:
                if k == "reclaim":
                    e[k] = not e[k]
                elif k in ("cur", "min", "max", "stat", "swap_max", "swap_cur", "ctrl") and rng.random() < 0.3:
                    e[k] = "empty"
                else:
                    e[k] = None
        return e


def parent_entry(rng, path, ino, args, swap_max=None):
    return {"p": path, "ino": ino, "gen": 0, "ctrl": "memory io",
            "swap_max": swap_max if swap_max is not None else "max", "swap_cur": 0}


def gen_one(rng, tier, slow=False):
    mode = {
        "immediate": slow or rng.random() < 0.5,
        "tmp": pick(rng, [(5, "none"), (3, "all"), (2, "some")]),
        "reclaim": "none" if slow else pick(rng, [(4, "none"), (4, "all"), (2, "some")]),
        "fault": pick(rng, [(5, 0.0), (3, 0.03), (2, 0.12)]),
        "churn": pick(rng, [(5, 0.0), (3, 0.08), (2, 0.25)]),
        "big": rng.random() < 0.07,
        "swap": rng.random() < 0.5,
    }
    mode["swapval"] = mode["immediate"] and rng.random() < 0.5
    mode["modulate"] = mode["immediate"] and rng.random() < 0.4
    if mode["swapval"] or mode["modulate"]:
        mode["swap"] = rng.random() < 0.85
    args = gen_args(rng, mode)
    if slow:
        # the memory.high poke of immediate-backoff mode goes through the time-out helper thread and blocks in "reclaim"
        args["memory_high_timeout_ms"] = "50"
    names = rng.sample(["a", "b", "c", "ab", "b2"], rng.randint(1, 4))
    nested = rng.random() < 0.15
    pat = pick(rng, [(5, "w/*"), (1, "w/?"), (1, ",".join("w/" + n for n in names[:2])), (1, "w/a*,w/b"), (1, "w/*,w/a")])
    if nested:
        pat = pick(rng, [(1, "w/*/x"), (1, "w/*,w/*/x")])
    args["cgroup"] = pat
    inos = rng.sample(range(2, 90), 24)
    nxt = iter(inos)
    w_swap = pick(rng, [(5, "max"), (1, 0), (2, 2 * G)])
    pw = parent_entry(rng, "w", next(nxt), args, w_swap)
    pd = parent_entry(rng, "d", next(nxt), args)
    leaves = []
    mids = []
    for n in names:
        if nested:
            mids.append(Leaf(rng, "w/" + n, next(nxt), mode, args))
            leaves.append(Leaf(rng, "w/" + n + "/x", next(nxt), mode, args))
        else:
            leaves.append(Leaf(rng, "w/" + n, next(nxt), mode, args))
    decoy = Leaf(rng, "d/e", next(nxt), mode, args)
    memtotal = pick(rng, [(6, 16 * G // 1024), (1, 1 * G // 1024), (1, 64 * M // 1024), (0.7, None), (1 if mode["big"] else 0, (1 << 61) // 1024)])
    swaptotal = pick(rng, [(3, 8 * G), (1, 1 * G)]) if mode["swap"] else 0
    nt = rng.randint(3, 14) if tier != "quick" else rng.randint(3, 10)
    ticks = []
    thr = int(args.get("swapout_bps_threshold", str(1 << 20)))
    swp = pick(rng, [(6, 60), (1, 0), (1, 100), (1, 1)])
    for t in range(nt):
        # churn: remove / re-create / re-identify
        for lf in leaves:
            if rng.random() < mode["churn"]:
                k = rng.choice(["vanish", "newino", "recycle", "lowid"])
                if not lf.present:
                    lf.present = True
                    lf.fresh = True
                    lf.gen += 1
                    if rng.random() < 0.8:
                        lf.ino = next(nxt, lf.ino)
                elif k == "vanish":
                    lf.present = False
                elif k == "newino":
                    lf.ino = next(nxt, lf.ino)
                    lf.gen += 1
                    lf.fresh = True
                elif k == "recycle":
                    lf.gen += 1
                    lf.fresh = True
                else:
                    lf.ino = 1 if all(l.ino != 1 for l in leaves + mids + [decoy]) and pw["ino"] != 1 and pd["ino"] != 1 else lf.ino
                    if lf.ino == 1:
                        lf.gen += 1
                        lf.fresh = True
        if rng.random() < 0.1:
            swp = pick(rng, [(6, 60), (1, 0), (1, 100), (1, 1)])
        used = 0
        if swaptotal:
            used = pick(rng, [(3, 0), (2, swaptotal // 2), (1, int(swaptotal * 0.8)), (1, int(swaptotal * 0.8) + 4096), (1, swaptotal), (1, swaptotal // 10)])
        sysj = {"swaptotal": swaptotal, "swapused": used, "swappiness": swp if swaptotal or rng.random() < 0.7 else 0,
                "bps60": pick(rng, [(5, 0), (2, thr // 2), (1, thr), (1, thr * 2 + 1), (1, thr // 10)]),
                "bps300": pick(rng, [(5, 0), (2, thr // 3), (1, thr), (1, thr * 3)])}
        cgs = [pw, pd]
        for m in mids:
            cgs.append(m.entry(mode))
        for lf in leaves:
            if lf.present and (not nested or True):
                cgs.append(lf.entry(mode))
        cgs.append(decoy.entry(mode))
        ticks.append({"sys": sysj, "cgs": cgs})
        if slow:
            ticks[-1]["slow"] = {c["p"]: 400 for c in cgs if rng.random() < 0.6}
    sc = {"args": args, "memtotal_kb": memtotal, "ticks": ticks}
    if rng.random() < 0.01:
        sc["meminfo_missing"] = True
    return sc


def gen(rng, tier):
    n = {"quick": 1600, "thorough": 20000, "search": 8000}[tier]
    for i in range(n):
        yield gen_one(rng, tier, slow=(i % 16 == 7))


def n_writes(t):
    return sum(len(x) for x in t.get("ticks", []))


def nontrivial(s, t, v):
    return len(s.get("ticks", [])) >= 2 and n_writes(t) >= 1


def bucket(s, t, v):
    b = list(v.get("tags", []))
    a = s.get("args", {})
    imm = a.get("immediate_backoff") in ("true", "True", "1")
    b.append("mode:immediate" if imm else "mode:limit")
    files = {e["f"] for tk in t.get("ticks", []) for e in tk}
    for f in sorted(files):
        b.append("wrote:" + f)
    if v.get("margin"):
        b.append("oracle:rounding-margin-skips")
    if s.get("meminfo_missing"):
        b.append("init:no-meminfo")
    if s.get("memtotal_kb") is None:
        b.append("init:no-MemTotal")
    if "memory_high_timeout_ms" in a and a["memory_high_timeout_ms"] != "0" and imm:
        b.append("poke:timeout-thread")
    return b


def shrink_candidates(s):
    ticks = s.get("ticks", [])
    for i in range(len(ticks) - 1, -1, -1):
        yield dict(s, ticks=ticks[:i] + ticks[i + 1:])
    paths = sorted({c["p"] for t in ticks for c in t["cgs"]}, key=lambda p: -len(p))
    for p in paths:
        if p in ("w",):
            continue
        yield dict(s, ticks=[dict(t, cgs=[c for c in t["cgs"] if c["p"] != p and not c["p"].startswith(p + "/")]) for t in ticks])
    for k in list(s.get("args", {})):
        if k != "cgroup":
            a = dict(s["args"])
            del a[k]
            yield dict(s, args=a)


def _sweep_stale_worlds(max_age_s=900):
    """scratch trees left behind by harness processes that a sanitizer aborted (unfixed tree)"""
    import os
    import shutil
    import time
    root = os.path.join(os.environ.get("VERIF_SCRATCH", "/var/tmp/oomd-verif"), "world")
    try:
        names = os.listdir(root)
    except OSError:
        return
    now = time.time()
    for n in names:
        if n.startswith("senpai-"):
            p = os.path.join(root, n)
            try:
                if now - os.stat(p).st_mtime > max_age_s:
                    shutil.rmtree(p, ignore_errors=True)
            except OSError:
                pass


def extra_coverage(results):
    _sweep_stale_worlds()
    margin = sum(int(v.get("margin", 0) or 0) for (_, _, v) in results)
    writes = sum(n_writes(t) for (_, t, _) in results)
    return {"writes_compared": writes, "oracle_rounding_margin_skips": margin,
            "slow_poke_scenarios": sum(1 for s, _, _ in results if any("slow" in t for t in s.get("ticks", []))),
            "poke_writes_interrupted_by_timeout": sum(t.get("interrupted_writes", 0) for _, t, _ in results)}

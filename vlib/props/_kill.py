"""Scenario generator shared by the kill family (C01, C03, C04, C17; engine h_kill).

A scenario is a kill-plugin configuration, an ActionContext, environment outcome scripts and a list of ticks.
Tick 0 carries the whole tree (`tree`), later ticks carry the `delta` the harness applies plus the resulting
`tree` (ids of the cgroups of that tick, semantic fields for the model).  Node fields:
  name, id, procs (lines of cgroup.procs), files (literal control-file contents, None = absent),
  xattrs (literal), sem {populated, oom_group, key, eligible, pids_current}, children
`sem` is what the file contents mean to oomd (C15's business); both are produced here from one source.
"""
import copy
import json

ENGINE = "kill"
HARNESS = "h_kill"
FLAVOUR = "asan"

NAMES = ["a", "a1", "ab", "b", "a.b", "c", "x", "ba"]
# stream `meta`: directory names that contain glob(3) metacharacters literally, next to siblings the same string would
# match as a pattern (a cgroup name is never a pattern: children are reached through the held directory fd)
META_NAMES = ["a*", "a?", "[ab]", "a1", "ab", "a", "b", "a[1]", "{a,b}", "*"]
TOPS = ["w", "sys", "w1"]
SIMPLE_KEY_PLUGINS = ["kill_by_pressure", "kill_by_swap_usage", "kill_by_pg_scan"]
OPAQUE_KEY_PLUGINS = ["kill_by_memory_size_or_growth", "kill_by_io_cost"]

ASSUMPTIONS = [
    "cgroup.procs lines are decimal numbers (kernel grammar); a line `0` (foreign pid namespace) is generated",
    "model: the world does not change while one run() executes, except that signalled processes leave cgroup.procs; "
    "cgroups appear / vanish between ticks.  C01's swap stream does change it mid-run (a candidate's directory is replaced at "
    "its path inside the first kill(2) aimed at it): for those runs only the property clauses are evaluated on the "
    "implementation's trace, the model is not compared",
    "ranking keys of kill_by_memory_size_or_growth and kill_by_io_cost are treated as unknown (any order inside a "
    "preference class is accepted; the keys are C09's subject); kill_by_pressure / swap_usage / pg_scan keys are exact",
    "the root cgroup itself is never a kill target; prekill hooks are absent (C07)",
    "with recursive=true the configured patterns do not resolve to a cgroup together with one of its ancestors "
    "(such a cgroup is a candidate twice and the trace cannot tell the two attempts apart)",
    "kernelkill reads cgroup.events afresh before it writes cgroup.kill: the model takes that answer from the trace (Env.events), like the contents of every cgroup.procs read; in the stale stream (C03, C17) a childless candidate loses all its processes between the tick's sample and the kill (its cgroup.procs / cgroup.events / pids.current are rewritten at the first kill-accounting xattr aimed at it): the fresh read then says populated 0, the attempt signals nobody and is no success (C03.emptied_victim_is_no_success), the next-best candidate is tried",
]
TRUSTED = ["harness/kill_interpose.h (libc interposition: kill, setxattr, openat, write, syscall, nanosleep, sd_bus_*)",
           "ext4 xattrs and readdir order of the scratch directory stand in for cgroupfs",
           "the harness's record of every read-open of cgroup.events (file lines): the acceptor takes the kernelkill branch's fresh answer (Env.events) from the read that follows the freeze write of the same cgroup; the stale stream's emptying of a cgroup (cgroup.procs / cgroup.events / pids.current rewritten inside the first setxattr aimed at it)"]


class Ids:
    def __init__(self):
        self.n = 10
        self.pid = 100

    def cg(self):
        self.n += 1
        return self.n

    def pids(self, rng, k):
        out = []
        for _ in range(k):
            self.pid += rng.randint(1, 7)
            out.append(str(self.pid))
        return out


def files_of(n, plugin):
    """literal control files of a node from its semantic fields"""
    s = n["sem"]
    f = {"cgroup.controllers": "memory io pids\n", "cgroup.kill": "", "cgroup.freeze": "0\n",
         "memory.current": "%d\n" % (4096 * (1 + n["id"] % 7)),
         "memory.stat": "anon 4096\nfile 0\npgscan %d\n" % n.get("_pgscan", 0)}
    if s["populated"] is None:
        f["cgroup.events"] = None if n["id"] % 2 else "frozen 0\n"
    else:
        f["cgroup.events"] = "populated %d\nfrozen 0\n" % s["populated"]
    if s["oom_group"] is None:
        f["memory.oom.group"] = None
    else:
        f["memory.oom.group"] = "%d\n" % s["oom_group"]
    if s["pids_current"] is None:
        f["pids.current"] = None
    else:
        f["pids.current"] = "%d\n" % s["pids_current"]
    k = n["_k"]
    f["memory.pressure"] = ("some avg10=0.00 avg60=0.00 avg300=0.00 total=0\n"
                            "full avg10=%d.00 avg60=%d.00 avg300=1.00 total=%d\n" % (k, k, k * 1000))
    f["io.pressure"] = f["memory.pressure"]
    f["memory.swap.current"] = "%d\n" % (k * 4096)
    f["memory.swap.max"] = "max\n"
    f["memory.low"] = "0\n"
    f["memory.min"] = "0\n"
    f["memory.high"] = "max\n"
    f["memory.max"] = "max\n"
    for m in n.get("_missing", []):
        f[m] = None
    return f


def set_sem_key(n, plugin, args):
    k = n["_k"]
    s = n["sem"]
    if plugin == "kill_by_pressure":
        s["key"], s["eligible"] = k, True
    elif plugin == "kill_by_swap_usage":
        s["key"] = k * 4096
        s["eligible"] = k * 4096 > {"4K": 4096, "8K": 8192}.get(args.get("threshold"), 1)
    elif plugin == "kill_by_pg_scan":
        s["key"] = n.get("_pgrate", 0)
        s["eligible"] = n.get("_pgrate", 0) > 0
    else:
        s["key"], s["eligible"] = 0, True


def gen_node(rng, ids, name, depth, o):
    n = {"name": name, "id": ids.cg(), "children": []}
    r = rng.random()
    if r < o["p_empty"]:
        k = 0
    elif r < o["p_empty"] + o["p_big"]:
        k = rng.randint(19, 45)
    else:
        k = rng.randint(1, 4)
    n["procs"] = ids.pids(rng, k)
    if k and rng.random() < o["p_zero"]:
        n["procs"].insert(rng.randrange(len(n["procs"]) + 1), "0")
    if depth < o["depth"]:
        for cn in rng.sample(o.get("names", NAMES), rng.randint(0, o["branch"])):
            if rng.random() < 0.8:
                n["children"].append(gen_node(rng, ids, cn, depth + 1, o))
    n["_k"] = rng.randint(0, o["keys"])
    n["_pgscan"] = rng.randint(0, 50)
    sub_has_procs = bool(n["procs"]) or any(c["sem"]["populated"] == 1 for c in n["children"])
    pop = 1 if sub_has_procs else 0
    r = rng.random()
    if r < 0.06:
        pop = 1 - pop
    elif r < 0.09:
        pop = None
    og = 0
    r = rng.random()
    if r < o["p_oomgroup"]:
        og = 1
    elif r < o["p_oomgroup"] + 0.04:
        og = None
    pc = len(n["procs"])
    r = rng.random()
    if r < 0.1:
        pc = None
    elif r < 0.2:
        pc = 0
    n["sem"] = {"populated": pop, "oom_group": og, "key": 0, "eligible": True, "pids_current": pc}
    xs = {}
    if rng.random() < o["p_pref"]:
        for x in rng.sample(["trusted.oomd_prefer", "user.oomd_prefer", "trusted.oomd_avoid", "user.oomd_avoid"],
                            rng.choice([1, 1, 1, 2])):
            xs[x] = rng.choice(["", "1"])
    if rng.random() < o["p_counters"]:
        for x in rng.sample(["trusted.oomd_kill", "user.oomd_kill", "trusted.oomd_ooms", "user.oomd_ooms"], rng.randint(1, 3)):
            xs[x] = rng.choice(["0", "1", "7", "41", "1000", "007", " 12", "+5", "-3", "12abc", ""])
    if rng.random() < o["p_nonint"]:
        for x in rng.sample(["trusted.oomd_kill", "user.oomd_kill", "trusted.oomd_ooms", "user.oomd_ooms"], 1):
            xs[x] = rng.choice(["abc", "x1", "-", "99999999999", " ", "0x"])
    n["xattrs"] = xs
    if rng.random() < 0.06:
        n["_missing"] = rng.sample(["cgroup.kill", "cgroup.freeze", "cgroup.procs"], 1)
        if "cgroup.procs" in n["_missing"]:
            n["procs"] = []
    return n


def walk(node, path=()):
    for c in node["children"]:
        p = path + (c["name"],)
        yield p, c
        yield from walk(c, p)


def finish_tree(tree, plugin, args):
    for _, n in walk(tree):
        set_sem_key(n, plugin, args)
        n["files"] = files_of(n, plugin)
    return tree


def public(tree):
    """drop generator-private fields"""
    t = copy.deepcopy(tree)

    def rec(n):
        for k in [k for k in n if k.startswith("_")]:
            del n[k]
        for c in n.get("children", []):
            rec(c)
    rec(t)
    return t


def gen_patterns(rng, tree):
    paths = ["/".join(p) for p, _ in walk(tree)]
    pats = []
    for _ in range(rng.choice([1, 1, 1, 2, 3])):
        r = rng.random()
        p = rng.choice(paths) if paths else "w"
        comps = p.split("/")
        if r < 0.3:
            pats.append(p)
        elif r < 0.55:
            comps[-1] = "*"
            pats.append("/".join(comps))
        elif r < 0.7:
            comps[-1] = comps[-1][0] + "*"
            pats.append("/".join(comps))
        elif r < 0.8:
            comps[0] = "*"
            pats.append("/".join(comps))
        elif r < 0.9:
            pats.append("/".join(comps[:1]) + "/*")
        else:
            pats.append(rng.choice(["zz/*", "w/zz", "*", "w/*/*"]))
    return ",".join(dict.fromkeys(pats))


def resolve_py(tree, pats):
    """paths matched by the comma-separated patterns (component-wise fnmatch; used only to steer the generator)"""
    import fnmatch
    out = []
    for p, _ in walk(tree):
        for pat in pats.split(","):
            pc = [c for c in pat.split("/") if c]
            if len(pc) == len(p) and all(fnmatch.fnmatchcase(a, b) for a, b in zip(p, pc)):
                out.append(p)
                break
    return out


def overlapping(tree, pats):
    r = resolve_py(tree, pats)
    return any(a != b and a == b[:len(a)] for a in r for b in r)


def kill_script(rng, tree, mode):
    ks = {}
    for _, n in walk(tree):
        m = mode if mode != "mixed" else rng.choice(["die", "die", "die", "fail", "linger", "perpid"])
        for p in n["procs"]:
            if p == "0":
                continue
            if m == "die":
                continue
            if m == "fail":
                ks[p] = [rng.choice(["ESRCH", "EPERM"])]
            elif m == "linger":
                ks[p] = ["ok"] * rng.randint(1, 3) + ["ok-dies"] if rng.random() < 0.8 else ["ok"]
            else:
                ks[p] = rng.choice([["ok-dies"], ["ESRCH"], ["EPERM"], ["ok", "ok-dies"], ["ok", "ESRCH"], ["EPERM", "ok-dies"]])
    return ks


def mutate_tick(rng, ids, tree, plugin, args, static_structure):
    """next tick: returns (delta, new tree)"""
    t = copy.deepcopy(tree)
    delta = {"rm": [], "mk": [], "write": {}, "setx": [], "rmx": [], "procs": {}}
    nodes = list(walk(t))
    if not nodes:
        return delta, t

    def parent_of(path):
        cur = t
        for c in path[:-1]:
            cur = [x for x in cur["children"] if x["name"] == c][0]
        return cur
    nops = rng.randint(1, 3)
    for _ in range(nops):
        nodes = list(walk(t))
        if not nodes:
            break
        path, n = rng.choice(nodes)
        rel = "/".join(path)
        if any(rel == r or rel.startswith(r + "/") for r in delta["rm"]) or any(rel.startswith(m["path"]) for m in delta["mk"]):
            continue
        r = rng.random()
        structural_ok = not (delta["rm"] or delta["mk"] or delta["procs"] or delta["write"] or delta["setx"] or delta["rmx"])
        if r < 0.25 and not static_structure and len(path) > 1 and structural_ok:
            parent_of(path)["children"] = [c for c in parent_of(path)["children"] if c is not n]
            delta["rm"].append(rel)
            if rng.random() < 0.5:     # re-created under the same name: a different cgroup
                o = dict(depth=len(path) + 1, branch=2, p_empty=0.2, p_big=0.05, p_zero=0.0, keys=3, p_oomgroup=0.1,
                         p_pref=0.2, p_counters=0.0, p_nonint=0.0)
                nn = gen_node(rng, ids, n["name"], len(path), o)
                finish_tree({"children": [nn]}, plugin, args)
                parent_of(path)["children"].append(nn)
                delta["mk"].append({"path": rel, "node": public(nn)})
        elif r < 0.55:
            n["procs"] = n["procs"] + ids.pids(rng, rng.randint(1, 3)) if rng.random() < 0.7 else []
            delta["procs"][rel] = n["procs"]
            if n["sem"]["populated"] is not None and rng.random() < 0.8:
                n["sem"]["populated"] = 1 if n["procs"] else n["sem"]["populated"]
                delta["write"][rel + "/cgroup.events"] = "populated %d\nfrozen 0\n" % n["sem"]["populated"]
        elif r < 0.75:
            x = rng.choice(["trusted.oomd_prefer", "user.oomd_avoid", "trusted.oomd_avoid"])
            if any(d["path"] == rel and d["name"] == x for d in delta["setx"] + delta["rmx"]):
                continue        # one change per attribute and tick (the harness applies all setx before all rmx)
            if x in n["xattrs"]:
                del n["xattrs"][x]
                delta["rmx"].append({"path": rel, "name": x})
            else:
                n["xattrs"][x] = ""
                delta["setx"].append({"path": rel, "name": x, "val": ""})
        else:
            n["_k"] = rng.randint(0, 5)
            set_sem_key(n, plugin, args)
            fs = files_of(n, plugin)
            for f in ("memory.pressure", "io.pressure", "memory.swap.current"):
                delta["write"][rel + "/" + f] = fs[f]
    if plugin == "kill_by_pg_scan":
        for path, n in walk(t):
            inc = rng.choice([0, 0, 1, 5, 5, 9])
            n["_pgscan"] = n.get("_pgscan", 0) + inc
            n["_pgrate"] = inc
            set_sem_key(n, plugin, args)
            delta["write"]["/".join(path) + "/memory.stat"] = "anon 4096\nfile 0\npgscan %d\n" % n["_pgscan"]
    for _, n in walk(t):
        n["files"] = files_of(n, plugin)
    return delta, t


def gen_world(rng, tier, prop, o_over=None):
    ids = Ids()
    o = dict(depth=rng.choice([1, 2, 2, 3, 3, 4]) if tier != "thorough" else rng.choice([2, 3, 4, 5, 6]),
             branch=rng.choice([1, 2, 3, 4]) if tier != "thorough" else rng.choice([2, 3, 4, 6]),
             p_empty=rng.choice([0.1, 0.3, 0.5]), p_big=0.06, p_zero=0.0, keys=rng.choice([1, 2, 5, 30]),
             p_oomgroup=rng.choice([0.0, 0.15, 0.4]), p_pref=rng.choice([0.0, 0.3, 0.6]),
             p_counters=0.25, p_nonint=0.0)
    if o_over:
        o.update(o_over)
    tree = {"name": "", "children": []}
    for tn in rng.sample(TOPS, rng.choice([1, 1, 2, 3])):
        tree["children"].append(gen_node(rng, ids, tn, 1, o))
    return ids, tree


def gen_one(rng, tier, prop, stream):
    """stream: base | zero (pid 0 lines) | nonint (non-integer counter xattrs) | restart (systemd_restart) | meta | swap (a candidate
    cgroup is replaced at its path while it is being killed) | stale (a candidate empties on its own before it is killed)"""
    if stream == "restart":
        ids, tree = gen_world(rng, "quick", prop, dict(depth=1, branch=1))
        args = {"service": rng.choice(["foo.service", "bar.service"]), "post_action_delay": str(rng.choice([0, 1, 2]))}
        if rng.random() < 0.5:
            args["dry"] = rng.choice(["true", "false"])
        finish_tree(tree, "systemd_restart", args)
        return {"prop": prop, "stream": stream, "cfg": {"plugin": "systemd_restart", "args": args}, "ctx": {},
                "twin": prop == "C04", "dbus": rng.choice(["ok", "ok", "fail"]), "kill": {},
                "ticks": [{"advance_s": 0, "tree": public(tree)}]}
    over = {}
    if stream == "zero":
        over["p_zero"] = 0.5
    if stream == "nonint":
        over["p_nonint"] = 0.5
    if stream == "meta":
        over.update(names=META_NAMES, branch=rng.choice([3, 4, 5]), depth=rng.choice([2, 3]), p_empty=0.1, p_oomgroup=0.0)
    ids, tree = gen_world(rng, tier, prop, over)
    plugin = rng.choice(SIMPLE_KEY_PLUGINS * 3 + OPAQUE_KEY_PLUGINS) if rng.random() < 0.6 else "kill_by_pressure"
    if stream == "meta":
        # (plugins whose ranking key does not go through getMemoryProtection: its sibling lookup treated sibling names as
        # patterns until /repo 48d8f5d - found and fixed under C15; the restriction is kept so that the stream stays a pure
        # containment stream)
        plugin = rng.choice(["kill_by_pressure", "kill_by_pressure", "kill_by_swap_usage"])
    args = {}
    if plugin == "kill_by_pressure":
        args["resource"] = rng.choice(["memory", "memory", "io"])
    if plugin == "kill_by_swap_usage" and rng.random() < 0.5:
        args["threshold"] = rng.choice(["4K", "8K"])
    if rng.random() < 0.6:
        args["recursive"] = rng.choice(["true", "true", "false"])
    if rng.random() < 0.15:
        args["always_continue"] = "true"
    if rng.random() < 0.2:
        args["kernelkill"] = "true"
    if rng.random() < 0.5:
        args["reap_memory"] = rng.choice(["true", "false"])
    if rng.random() < 0.5:
        args["post_action_delay"] = str(rng.choice([0, 1, 7, 30]))
    if prop == "C17" and rng.random() < 0.15:
        args["dry"] = "true"
    if plugin == "kill_by_pg_scan":
        for _, n in walk(tree):
            n["_pgrate"] = 0
    finish_tree(tree, plugin, args)
    args["cgroup"] = gen_patterns(rng, tree)
    if stream == "meta":
        tops = [c["name"] for c in tree["children"]]
        args["cgroup"] = rng.choice([",".join(t + "/*" for t in tops), "*/*", ",".join(tops)])
        args["recursive"] = rng.choice(["true", "true", "false"]) if args["cgroup"] != ",".join(tops) else "true"
        args.pop("kernelkill", None)
    # a cgroup that is a candidate twice (a root and, through recursion, a descendant of another root) is attempted
    # once per way; the trace cannot tell the two apart, so the acceptor's tie-breaking would be a guess: not generated
    for _ in range(20):
        if not (args.get("recursive") == "true" and overlapping(tree, args["cgroup"])):
            break
        args["cgroup"] = gen_patterns(rng, tree)
    else:
        args["recursive"] = "false"
    sc = {"prop": prop, "stream": stream, "cfg": {"plugin": plugin, "args": args},
          "ctx": {"ruleset": rng.choice(["rs", "ruleset-two"]), "group": rng.choice(["dg", "group_b"]),
                  "deadline_s": rng.choice([5, 0, None]), "silence": rng.random() < 0.3,
                  "has_ruleset": rng.random() < 0.9},
          "twin": prop == "C04",
          "kill": kill_script(rng, tree, rng.choice(["die", "mixed", "mixed", "fail"])),
          "pidfd": rng.choice(["ok", "ok", "ESRCH", "ENOSYS"]), "mrelease": rng.choice(["ok", "ok", "ESRCH", "EINVAL"])}
    if rng.random() < 0.1:
        sc["xfail"] = [rng.choice(["user.", "trusted."])]
    if "kernelkill" in args and rng.random() < 0.2:
        sc["wfail"] = [rng.choice(["cgroup.kill", "cgroup.freeze"])]
    ticks = [{"advance_s": 0, "tree": public(tree)}]
    nt = rng.choice([1, 1, 2, 3]) if plugin != "kill_by_pg_scan" else rng.choice([2, 3, 3])
    cur = tree
    for _ in range(nt - 1):
        delta, nxt = mutate_tick(rng, ids, cur, plugin, args, static_structure=(plugin == "kill_by_pg_scan"))
        if args.get("recursive") == "true" and overlapping(nxt, args["cgroup"]):
            break
        cur = nxt
        ticks.append({"advance_s": rng.choice([1, 5, 5, 60]), "delta": delta, "tree": public(cur)})
        # new pids get a script too
        extra = kill_script(rng, cur, "mixed")
        for k, v in extra.items():
            sc["kill"].setdefault(k, v)
    sc["ticks"] = ticks
    if stream == "swap":
        add_swap(rng, sc, tree)
    if stream == "stale":
        add_stale(rng, sc, tree)
    return sc


def add_stale(rng, sc, tree):
    """the stale stream: one tick; one or two childless cgroups below the configured roots lose all their processes on their own
    between the tick's sample of the tree and the moment oomd turns to them (the harness empties them at the first kill-accounting
    xattr aimed at them): such a victim yields no signalled process, the next-best candidate has to be tried"""
    sc["ticks"] = sc["ticks"][:1]
    a = sc["cfg"]["args"]
    a.pop("dry", None)
    if rng.random() < 0.6:
        a["kernelkill"] = "true"
    sc.pop("wfail", None)
    nodes = dict(walk(tree))
    pool = []
    for p in resolve_py(tree, a["cgroup"]):
        for n in [nodes[p]] + [m for _, m in walk(nodes[p])]:
            if not n["children"] and [x for x in n["procs"] if x != "0"] and n["id"] not in pool:
                pool.append(n["id"])
    if pool:
        sc["empty_at_attempt"] = sorted(rng.sample(pool, min(len(pool), rng.choice([1, 1, 2, 3]))))


def add_swap(rng, sc, tree):
    """the swap stream: one tick; while the first pid of a candidate cgroup P (or of its subtree) is being signalled, P's directory
    is renamed out of the tree and a stranger with the same layout and other pids appears at P's path"""
    sc["ticks"] = sc["ticks"][:1]
    a = sc["cfg"]["args"]
    a.pop("kernelkill", None)
    a.pop("dry", None)
    cands = [p for p in resolve_py(tree, a["cgroup"])]
    nodes = dict(walk(tree))
    withkids = [p for p in cands if nodes[p]["children"]]
    if not cands:
        return
    p = rng.choice(withkids or cands)
    node = nodes[p]
    sub = [node] + [n for _, n in walk(node)]
    pids = [x for n in sub for x in n["procs"] if x != "0"]
    stranger = copy.deepcopy(node)
    base = 900000 + rng.randint(0, 1000)

    def rec(n):
        nonlocal base
        n["id"] = n["id"] + 100000
        k = max(1, len([x for x in n["procs"] if x != "0"]))
        n["procs"] = [str(base + i) for i in range(k)]
        base += k
        if "files" in n and "cgroup.procs" in n["files"]:
            del n["files"]["cgroup.procs"]
        for c in n["children"]:
            rec(c)
    rec(stranger)
    sc["swap_at_kill"] = {"path": "/".join(p), "pids": pids, "stranger": public(stranger)}


BUDGET = {"quick": 3000, "thorough": 50000, "search": 6000}


def gen(rng, tier, prop, streams):
    """streams: list of (name, weight)"""
    n = BUDGET[tier]
    names = [s for s, _ in streams]
    weights = [w for _, w in streams]
    for _ in range(n):
        st = rng.choices(names, weights)[0]
        yield gen_one(rng, tier, prop, st)


# ---- reading traces ---------------------------------------------------------------------------

def all_events(t):
    for r in t.get("runs", []):
        for tk in r.get("ticks", []):
            for e in tk.get("events", []):
                yield e


def nodes_of(s):
    for tk in s.get("ticks", []):
        for p, n in walk(tk.get("tree", {"children": []})):
            yield p, n


def classify(s, t, v):
    oc = t.get("outcome", "ok")
    if oc not in ("ok", "exit0"):
        if ("invalid_argument" in oc or "out_of_range" in oc) and s.get("stream") == "nonint":
            return "xattr-nonint"
        return "outcome:" + oc
    if v.get("class"):
        return v["class"]
    return (v.get("violated") or ["?"])[0]


def bucket(s, t, v):
    b = ["plugin:" + s["cfg"]["plugin"], "stream:" + s.get("stream", "?"), "ticks:%d" % len(s["ticks"])]
    a = s["cfg"]["args"]
    for k in ("recursive", "kernelkill", "always_continue", "dry"):
        if a.get(k) == "true":
            b.append("arg:" + k)
    evs = list(all_events(t))
    nk = sum(1 for e in evs if e["ev"] == "kill")
    b.append("kills:%s" % ("0" if nk == 0 else "1-20" if nk <= 20 else ">20"))
    natt = len({e["val"] for e in evs if e["ev"] == "setxattr" and e["name"].endswith("kill_uuid")})
    b.append("attempts:%s" % (natt if natt < 3 else "3+"))
    if not v.get("accepts", True):
        b.append("not-accepted")
    for r in t.get("runs", []):
        for tk in r.get("ticks", []):
            b.append("ret:" + tk.get("ret", "?"))
    return b


def shrink_candidates(s):
    # fewer ticks
    if len(s["ticks"]) > 1:
        yield dict(s, ticks=s["ticks"][:-1])
    # drop a subtree everywhere (only single-tick scenarios, deltas name paths)
    if len(s["ticks"]) == 1:
        tree = s["ticks"][0]["tree"]
        for path, _ in list(walk(tree)):
            t2 = copy.deepcopy(tree)
            cur = t2
            for c in path[:-1]:
                cur = [x for x in cur["children"] if x["name"] == c][0]
            cur["children"] = [x for x in cur["children"] if x["name"] != path[-1]]
            yield dict(s, ticks=[dict(s["ticks"][0], tree=t2)])
        # drop pids
        for path, n in list(walk(tree)):
            if len(n["procs"]) > 1:
                for keep in (n["procs"][:len(n["procs"]) // 2], n["procs"][len(n["procs"]) // 2:]):
                    t2 = copy.deepcopy(tree)
                    cur = t2
                    for c in path:
                        cur = [x for x in cur["children"] if x["name"] == c][0]
                    cur["procs"] = keep
                    yield dict(s, ticks=[dict(s["ticks"][0], tree=t2)])
    for k in ("xfail", "wfail"):
        if s.get(k):
            yield {kk: vv for kk, vv in s.items() if kk != k}
    if s.get("kill"):
        yield dict(s, kill={})
    a = s["cfg"]["args"]
    for k in ("always_continue", "kernelkill", "reap_memory", "post_action_delay", "threshold"):
        if k in a:
            yield dict(s, cfg=dict(s["cfg"], args={kk: vv for kk, vv in a.items() if kk != k}))
    pats = a.get("cgroup", "").split(",")
    if len(pats) > 1:
        for i in range(len(pats)):
            yield dict(s, cfg=dict(s["cfg"], args=dict(a, cgroup=",".join(pats[:i] + pats[i + 1:]))))


def extra_coverage(results):
    n_att = n_sig = n_fallback = n_ties = 0
    for s, t, v in results:
        evs = list(all_events(t))
        att = len({e["val"] for e in evs if e["ev"] == "setxattr" and e["name"].endswith("kill_uuid")})
        n_att += att
        n_sig += sum(1 for e in evs if e["ev"] == "kill" and e["rc"] == 0)
        n_fallback += 1 if att > 1 else 0
    return {"kill_attempts": n_att, "signals_delivered_to_interposer": n_sig, "scenarios_with_fallback": n_fallback}

"""C19 - Stats service: atomic counters, total protocol, clean shutdown (engine h_statsvc).

Own `run(tier, seed, replay)`: the harness is threaded, runs on real time (2 s socket time-outs, 5 s
destructor wait), one process per scenario, and is built in two sanitizer flavours:
  tsan  API-call threads + raw socket client sessions (any ThreadSanitizer report is a violation)
  asan  socket path lengths around sizeof(sun_path) (+ a sample of the session scenarios)
Everything else (translator, lake build, audit, pins, driver, known findings, replay and evidence
shape, exit code) is the generic pipeline of vlib/core.py.
"""
import json
import os
import random
import re
import subprocess
import time
from concurrent.futures import ThreadPoolExecutor

from vlib import core

PROP = "C19"
ENGINE = "statsvc"
HARNESS = "h_statsvc"

RULE = ("api: 2-4 threads x 3-8 calls (increment/set/reset/getAll + raw-socket 'g'/'r' clients) over 3-4 keys, "
        "invocation/response stamped, checked for linearisability (Wing-Gong search with memoisation) against "
        "the sequential model, plus closed-form sum check on increment-only histories; "
        "sess: EVERY 1-byte and EVERY 2-byte request (half-closed), every 1-byte request + newline, seeded random "
        "requests up to 40 bytes over an alphabet biased to g/r/0/\\n/\\0, 31/32/33-byte unterminated requests, "
        "clients that stall (no terminator, connection kept open past the 2 s time-out), half-close, send late "
        "chunks, or disconnect without reading; destructor under a watchdog after every batch, also with stalled "
        "sessions still open; path: every socket path length 100..120 for Stats and for StatsClient, bind/connect "
        "arguments observed at the libc boundary, plus missing directory / directory / empty path. "
        "non-trivial = api history with two overlapping calls from different threads, session batch with at "
        "least one reply and (where tagged) one stall, path length >= 100")
ASSUMPTIONS = [
    "data-race freedom and mutual exclusion of stats_mutex_/thread_mutex_ are OBSERVED (ThreadSanitizer on the "
    "schedules that occurred, halt on first report), not proved; the Lean theorem linearisable_by_construction "
    "assumes every access to stats_ happens under the one mutex (hypothesis locked = true)",
    "memory safety of the path copy is observed (AddressSanitizer + bind/connect arguments at the libc boundary)",
    "counter values stay inside int (|value| < 2^31); overflow of the C++ int is not modelled",
    "AF_UNIX stream semantics of Linux (EOF on close/shutdown, ECONNRESET after unread data, EPIPE/SIGPIPE) and "
    "SO_RCVTIMEO granularity: client pauses between 1.2 s and 2.0 s are not generated",
    "SIGPIPE keeps its default disposition in the harness exactly as in oomd's main()",
    "a client that keeps trickling bytes (each pause < 2 s) can keep a handler alive for up to 32 x 2 s; the "
    "destructor waits 5 s: listed as a known finding, not covered by shutdown_completes_model's time-free claim",
]
TRUSTED = ["ThreadSanitizer / AddressSanitizer of g++ 12 (observation of races and overflows)",
           "Linux AF_UNIX sockets (modelled: read results byte / EOF / time-out)",
           "jsoncpp toStyledString (reply syntax is re-parsed by Lean's Json.parse)"]

KEYS = ["a", "b", "c", "oomd.kills"]
TSAN_ENV = {"TSAN_OPTIONS": "halt_on_error=1 exitcode=66 report_thread_leaks=0 second_deadlock_stack=1"}
ASAN_ENV = {"ASAN_OPTIONS": "detect_leaks=0:abort_on_error=0:allocator_may_return_null=1:detect_stack_use_after_return=0"}


def hx(bs):
    return bytes(bs).hex()


# --------------------------------------------------------------------------------------------
# generators
# --------------------------------------------------------------------------------------------

def gen_init(rng):
    n = rng.randint(0, 3)
    init = []
    for k in rng.sample(KEYS, n):
        init.append(["inc", k, rng.randint(1, 9)])
    return init


def gen_api(rng, inc_only=False, singleton=False):
    T = rng.randint(2, 4)
    threads = []
    for _ in range(T):
        ops = []
        for _ in range(rng.randint(3, 8 if inc_only else 6)):
            r = rng.random()
            if inc_only:
                ops.append(["inc", rng.choice(KEYS[:3]), rng.randint(1, 5)] if r < 0.8 else ["get"])
            elif r < 0.42:
                ops.append(["inc", rng.choice(KEYS), rng.randint(-3, 9)])
            elif r < 0.62:
                ops.append(["get"])
            elif r < 0.72:
                ops.append(["set", rng.choice(KEYS), rng.randint(0, 50)])
            elif r < 0.80:
                ops.append(["reset"])
            elif r < 0.87:
                ops.append(["cget"])
            elif r < 0.93:
                ops.append(["scget"])
            elif r < 0.95:
                ops.append(["screset"])
            elif r < 0.97:
                ops.append(["creset"])
            else:
                ops.append(["yield"])
        threads.append(ops)
    s = {"kind": "api", "flavour": "tsan", "init": gen_init(rng), "threads": threads,
         "tag": "api-inc-only" if inc_only else "api"}
    if singleton:
        s["singleton"] = True
        s["tag"] = "api-singleton"
    return s


def gen_api_resetrace(rng):
    """many counters, one thread resetting while others read all counters and bump two of them: a reset that is not one atomic
    step (e.g. one lock acquisition per key) lets a reader see some counters zeroed and others not, which no sequential order
    of the issued calls explains"""
    nk = rng.choice([60, 120, 250])
    keys = ["rr.%03d" % i for i in range(nk)]
    init = [["set", k, rng.randint(1, 9)] for k in keys]
    threads = [[rng.choice([["reset"], ["reset"], ["creset"]])] + [["get"]] * rng.randint(0, 1)]
    for _ in range(rng.randint(1, 2)):
        threads.append([["get"]] * rng.randint(2, 4))
    threads.append([["inc", rng.choice(keys), 1], ["get"], ["inc", rng.choice(keys), 2]])
    rng.shuffle(threads)
    return {"kind": "api", "flavour": "tsan", "init": init, "threads": threads, "tag": "api-resetrace"}


BIASED = [0x67, 0x72, 0x30, 0x0a, 0x00, 0x61, 0x7a, 0x20, 0xff, 0x7b]


def rand_req(rng, lo, hi):
    n = rng.randint(lo, hi)
    return [rng.choice(BIASED) if rng.random() < 0.6 else rng.randrange(256) for _ in range(n)]


def gen_random_sessions(rng, n):
    ss = []
    for _ in range(n):
        r = rng.random()
        if r < 0.4:      # terminated, client waits for the reply
            b = rand_req(rng, 0, 38) + [rng.choice([0x0a, 0x00])] + (rand_req(rng, 0, 3) if rng.random() < 0.2 else [])
            ss.append({"hex": hx(b[:40]), "end": "read"})   # terminator inside the window, or >= 32 bytes: answered
        elif r < 0.75:   # EOF instead of a terminator
            ss.append({"hex": hx(rand_req(rng, 0, 40)), "end": "half"})
        elif r < 0.85:   # two chunks, second one 5..400 ms later
            b = rand_req(rng, 1, 20)
            ss.append({"chunks": [[hx(b), 0], [hx(rand_req(rng, 0, 10) + [0x0a]), rng.choice([5, 50, 400])]], "end": "read"})
        else:            # disconnect without reading (possibly before the server wrote)
            ss.append({"hex": hx(rand_req(rng, 0, 40) + ([0x0a] if rng.random() < 0.7 else [])), "end": "reset",
                       "close_delay_ms": rng.choice([0, 0, 1, 5, 30])})
    return ss


INIT_XY = [["inc", "x", 3], ["inc", "oomd.kills", 12], ["set", "y", 0]]


def sess_scn(tag, sessions, init=None, flavour="tsan", **kw):
    s = {"kind": "sess", "flavour": flavour, "tag": tag, "init": INIT_XY if init is None else init,
         "sessions": sessions, "par": 8}
    s.update(kw)
    return s


def gen_stall_batch(rng, n):
    ss = []
    for _ in range(n):
        pre = [b for b in rand_req(rng, 0, 31) if b not in (0, 10)]
        ss.append({"hex": hx(pre), "end": "read", "bg": True})
    ss.append({"hex": "670a"})
    ss.append({"hex": "30", "end": "half"})
    return ss


def gen(rng, tier):
    n_api, n_inc, n_rand, n_stall_batches, two_byte = {
        "quick": (40, 10, 300, 1, True), "thorough": (3000, 600, 20000, 12, True), "search": (150, 40, 1500, 2, False)}[tier]
    for _ in range(n_api):
        yield gen_api(rng)
    for _ in range(n_inc):
        yield gen_api(rng, inc_only=True)
    for _ in range(2 if tier == "quick" else 6):
        yield gen_api(rng, singleton=True)
    for _ in range({"quick": 12, "thorough": 300, "search": 40}[tier]):
        yield gen_api_resetrace(rng)
    yield {"kind": "uninit", "flavour": "tsan", "tag": "uninit"}
    # exhaustive small requests
    yield sess_scn("one-byte-eof", [{"hex": "", "end": "half"}] + [{"hex": hx([b]), "end": "half"} for b in range(256)])
    yield sess_scn("one-byte-nl", [{"hex": "0a"}] + [{"hex": hx([b, 10])} for b in range(256)])
    if two_byte:
        for f0 in range(0, 256, 4):
            yield sess_scn("two-byte-eof", [{"hex": hx([f, g]), "end": "half"} for f in range(f0, f0 + 4) for g in range(256)])
    if tier == "thorough":
        for f0 in range(0, 256, 4):
            yield sess_scn("two-byte-nl", [{"hex": hx([f, g, 10])} for f in range(f0, f0 + 4) for g in range(256)])
    # random requests up to 40 bytes
    for i in range(0, n_rand, 100):
        yield sess_scn("random", gen_random_sessions(rng, 100), init=gen_init(rng))
    # window edge: 31 bytes unterminated stalls, 32 and 33 are answered after 32 reads
    for first in (0x67, 0x72, 0x7a):
        yield sess_scn("window-edge", [{"hex": hx([first] * 31), "end": "read", "bg": True},
                                       {"hex": hx([first] * 32), "end": "read", "bg": True},
                                       {"hex": hx([first] * 33), "end": "read", "bg": True},
                                       {"hex": hx([first] * 31), "end": "half"},
                                       {"hex": hx([first] * 31 + [10])}])
    # stalls past the 2 s time-out, alone and next to well-behaved clients
    for _ in range(n_stall_batches):
        yield sess_scn("stall", gen_stall_batch(rng, 12))
    yield sess_scn("stall-one", [{"hex": "67", "end": "read", "bg": True}])
    # late second chunk: 1 s is inside the time-out (answered), 3 s is after it (no reply, connection closed)
    yield sess_scn("late-chunk", [{"chunks": [["67", 0], ["0a", 1000]], "end": "read", "bg": True},
                                  {"chunks": [["67", 0], ["0a", 3000]], "end": "read", "bg": True},
                                  {"chunks": [["", 0], ["720a", 700]], "end": "read", "bg": True}])
    # clients that disconnect without reading
    yield sess_scn("disconnect", [{"hex": "670a", "end": "reset", "close_delay_ms": d} for d in (0, 0, 0, 0, 1, 2, 5, 20)] +
                   [{"hex": "72", "end": "reset"}, {"hex": "", "end": "reset"}, {"hex": "670a"}], settle_ms=200)
    yield sess_scn("disconnect-one", [{"hex": "670a", "end": "reset"}], settle_ms=200)
    # shutdown while stalled clients are still connected: handlers time out after 2 s < 5 s
    yield sess_scn("shutdown-pending", [{"hex": hx([0x67] * k), "end": "read", "bg": True} for k in (0, 1, 5, 31)], dtor_at_ms=300)
    # a reply larger than the socket send buffer to a client that never reads: the handler's send must time out (2 s) and the
    # handler must go away - while the client is still connected (shutdown at 300 ms completes) and after it left
    big = [["set", "counter.%05d.%s" % (i, "x" * 64), i % 7] for i in range(6000)]
    yield sess_scn("stalled-reader-big-reply", [{"hex": "670a", "end": "reset", "close_delay_ms": 9000, "bg": True}],
                   init=big, dtor_at_ms=300, watchdog_ms=12000)
    yield sess_scn("stalled-reader-big-reply", [{"hex": "670a", "end": "reset", "close_delay_ms": 3500, "bg": True}, {"hex": "300a"}],
                   init=big, watchdog_ms=12000)
    # ... and to a client that starts reading only after the handler's first send timed out with a part of the reply written:
    # the rest has to follow where the first part ended (one well-formed reply)
    yield sess_scn("late-reader-big-reply", [{"hex": "670a", "read_delay_ms": 2600}], init=big, watchdog_ms=15000)
    # ASan flavour: path lengths, unusable paths, and a sample of sessions / api
    for L in range(100, 121):
        yield {"kind": "path", "flavour": "asan", "tag": "path-server", "who": "server", "len": L}
        yield {"kind": "path", "flavour": "asan", "tag": "path-client", "who": "client", "len": L}
    for b in ("missing_dir", "is_dir", "empty"):
        yield {"kind": "path", "flavour": "asan", "tag": "path-unusable", "who": "server", "bad": b}
    yield sess_scn("random", gen_random_sessions(rng, 100), init=gen_init(rng), flavour="asan")
    for _ in range(5):
        s = gen_api(rng)
        s["flavour"] = "asan"
        yield s


def overlapping(t):
    h = t.get("hist") or []
    for a in h:
        for b in h:
            if a["th"] < b["th"] and a["inv"] < b["res"] and b["inv"] < a["res"]:
                return True
    return False


def nontrivial(s, t, v):
    k = s.get("kind")
    if k == "api":
        return overlapping(t)
    if k == "sess":
        rs = t.get("sess") or []
        got = any(r.get("reply") for r in rs)
        if s.get("tag", "").startswith("stall"):
            return got and any(r.get("ms", 0) >= 1900 and not r.get("reply") for r in rs)
        return got
    if k == "path":
        return t.get("path_len", 0) >= 100 or bool(s.get("bad"))
    return True


def bucket(s, t, v):
    b = ["kind:" + s.get("kind", "?"), "flavour:" + s.get("flavour", "tsan"), "tag:" + s.get("tag", "?")]
    if s.get("kind") == "api":
        b.append("api:overlap=%s" % overlapping(t))
        b.append("api:threads=%d" % len(s.get("threads", [])))
    if s.get("kind") == "sess":
        for r in t.get("sess") or []:
            b.append("sess:end=%s,reply=%s" % (r.get("end"), "yes" if r.get("reply") else "no"))
    if s.get("kind") == "path":
        b.append("path:init=%s" % t.get("init", "-"))
    return b


def shrink_candidates(s):
    if s.get("kind") == "sess":
        ss = s["sessions"]
        n = len(ss)
        if n > 1:
            half = (n + 1) // 2
            yield dict(s, sessions=ss[:half])
            yield dict(s, sessions=ss[half:])
            if n <= 16:
                for i in range(n):
                    yield dict(s, sessions=ss[:i] + ss[i + 1:])
        if s.get("init"):
            yield dict(s, init=[])
    if s.get("kind") == "api":
        th = s["threads"]
        if len(th) > 1:
            for i in range(len(th)):
                yield dict(s, threads=th[:i] + th[i + 1:])
        for i, ops in enumerate(th):
            for j in range(len(ops)):
                yield dict(s, threads=th[:i] + [ops[:j] + ops[j + 1:]] + th[i + 1:])
        if s.get("init"):
            yield dict(s, init=[])


# --------------------------------------------------------------------------------------------
# the check
# --------------------------------------------------------------------------------------------

def run_procs(exe, scs, env, jobs, timeout=90):
    """one harness process per scenario.  Not core.run_harness: the server logs the raw (possibly non-UTF-8)
    request byte to stderr, which must be decoded leniently; and with one scenario per process a crash is
    attributed without guessing."""
    e = dict(os.environ)
    e["INLINE_LOGGING"] = "1"
    e.update(env)

    def one(s):
        inp = (json.dumps(s, separators=(",", ":")) + "\n").encode()
        try:
            r = subprocess.run([exe], input=inp, capture_output=True, timeout=timeout, env=e)
            rc, so, se = r.returncode, r.stdout, r.stderr
        except subprocess.TimeoutExpired as ex:
            rc, so, se = -999, ex.stdout or b"", ex.stderr or b""
        so = so.decode("utf-8", "replace")
        se = se.decode("utf-8", "replace")
        for line in so.splitlines():
            if line.startswith("{"):
                try:
                    j = json.loads(line)
                except Exception:
                    continue
                if j.get("id") == s["id"]:
                    if rc not in (0,) and j.get("outcome") == "ok" and j.get("destructor") not in ("abort", "hang"):
                        # the line was printed but the process still ended badly (sanitizer exit code)
                        j["outcome"] = "timeout" if rc == -999 else core.classify_crash(rc, se)
                        j["stderr"] = se[-3000:]
                    return s["id"], j
        kind = "timeout" if rc == -999 else core.classify_crash(rc, se)
        return s["id"], {"id": s["id"], "outcome": kind, "stderr": se[-3000:]}

    out = {}
    with ThreadPoolExecutor(jobs) as ex:
        for k, v in ex.map(one, scs):
            out[k] = v
    return out


class C19Check(core.Check):
    def __init__(self, tier, seed, exes):
        import sys
        core.Check.__init__(self, sys.modules[__name__], tier, seed)
        self.exes = exes

    def execute(self, exe, scs):
        """one process per scenario (crash attribution, real-time waits), flavour chosen per scenario"""
        tr = {}
        groups = {"tsan": [], "asan": []}
        for s in scs:
            groups["asan" if s.get("flavour") == "asan" else "tsan"].append(s)
        # long-running (stall / shutdown) scenarios first so they overlap with the quick ones
        def weight(s):
            return -1 if any(x in s.get("tag", "") for x in ("stall", "late", "shutdown", "trickle", "window", "stalled-reader")) else 0
        jobs = max(4, min(10, core.NCPU - 4))
        for fl, env in (("tsan", TSAN_ENV), ("asan", ASAN_ENV)):
            g = sorted(groups[fl], key=weight)
            if g:
                tr.update(run_procs(self.exes[fl], g, env, jobs))
        pairs = [(s, tr.get(s["id"], {"id": s["id"], "outcome": "missing"})) for s in scs]
        vs = core.run_driver(ENGINE, pairs)
        return [(s, t, vs.get(s["id"], {"id": s["id"], "accepts": False, "holds": True, "violated": [], "error": "no verdict"}))
                for s, t in pairs]


def run(tier, seed, replay=None):
    t_start = time.time()
    rng = random.Random(seed * 1000003 + sum(map(ord, PROP)))
    known, fixed = core.load_findings()
    known = [k for k in known if k["property"] == PROP]
    violations, known_hits = [], {}

    # 1. translator + proof obligations
    trep = core.run_translator()
    ok, failed, out = core.lake_build(["+OomdProps." + PROP, "drv_" + ENGINE])
    proof_broken, driver_ok = [], True
    if not ok:
        deps = core.module_imports("OomdProps." + PROP)
        ddeps = core.module_imports("Driver." + ENGINE.capitalize())
        proof_broken = [m for m in failed if m in deps]
        if any(m in ddeps for m in failed):
            driver_ok = False
        if failed == []:
            raise core.InfraError("lake build failed without a module error:\n" + out[-3000:])
    driver_ok = driver_ok and os.path.exists(core.driver_path(ENGINE))
    aud = {"theorems": [], "axioms": [], "problems": []}
    if not proof_broken:
        aud = core.audit(PROP)
    lc = None
    if tier == "thorough" and not proof_broken:
        lc = core.leanchecker(PROP)
        if not lc[0]:
            aud["problems"].append("leanchecker rejected OomdProps.%s: %s" % (PROP, lc[1]))
    obligations = len(aud["theorems"])
    discharged = 0 if (proof_broken or aud["problems"]) else obligations

    # 2. implementation, two sanitizer flavours of the same harness
    exes = {"tsan": core.build_harness(HARNESS, "tsan"), "asan": core.build_harness(HARNESS, "asan")}
    ck = C19Check(tier, seed, exes)

    # 3. scenarios
    if replay:
        rp = json.load(open(replay))
        scs = [rp["scenario"]] if "scenario" in rp else rp.get("scenarios", [])
        for i, s in enumerate(scs):
            s.setdefault("id", "replay-%d" % i)
    else:
        scs = ck.corpus()
        g = list(gen(rng, tier))
        changed = core.changed_sources()
        if changed and tier == "quick" and not os.environ.get("VERIF_NO_ESCALATION"):
            g += list(gen(random.Random(seed * 31 + 5), "search"))
            ck.notes.append("escalated (quick + search budget): sources changed since the last validated tree: " + ", ".join(changed[:8]))
        for i, s in enumerate(g):
            s.setdefault("id", "%s-s%d-%d" % (PROP, seed, i))
        scs += g
    results = ck.execute(None, scs) if driver_ok else []
    if not driver_ok:
        ck.notes.append("driver could not be built; correspondence not evaluated")

    # 4. compare
    canon, nontriv, failing, disagree, dist = set(), set(), [], [], {}
    for (s, t, v) in results:
        key = core.sha(json.dumps({k: s[k] for k in s if k != "id"}, sort_keys=True))[:16]
        canon.add(key)
        if nontrivial(s, t, v):
            nontriv.add(key)
        for b in bucket(s, t, v):
            dist[b] = dist.get(b, 0) + 1
        if "error" in v:
            raise core.InfraError("driver error on %s: %s" % (s["id"], v["error"]))
        if (not v.get("holds", True)) or core.bad_outcome(t):
            failing.append((s, t, v))
        elif not v.get("accepts", True):
            disagree.append((s, t, v))

    def is_failing(c, t, v):
        return (not v.get("holds", True)) or core.bad_outcome(t)

    by_class = {}
    for (s, t, v) in failing:
        by_class.setdefault(ck.classify(s, t, v), []).append((s, t, v))
    for cls, items in sorted(by_class.items()):
        kn = [k for k in known if k["class"] == cls]
        if kn:
            known_hits[cls] = (kn[0], len(items))
            continue
        items.sort(key=lambda x: len(json.dumps(x[0])))
        s, t, v = items[0]
        s2 = ck.shrink(None, s, lambda c, tt, vv: is_failing(c, tt, vv) and ck.classify(c, tt, vv) == cls, budget=45)
        if s2 is not s:
            s2 = dict(s2, id=s["id"] + "-min")
            (s, t, v) = ck.execute(None, [s2])[0]
        rp = ck.write_replay("%s-%d-%s.json" % (PROP, seed, re.sub(r"[^A-Za-z0-9_.-]", "_", cls)[:60]),
                             {"property": PROP, "class": cls, "kind": "failing-input", "count": len(items),
                              "scenario": s, "impl_trace": t, "verdict": v})
        violations.append((cls, rp, True))

    if not violations:
        if disagree and not failing:
            disagree.sort(key=lambda x: len(json.dumps(x[0])))
            s, t, v = disagree[0]
            found = None
            if not replay:
                extra = list(gen(random.Random(seed + 7919), "search"))
                for i, e in enumerate(extra):
                    e["id"] = "search-%d" % i
                for (s3, t3, v3) in ck.execute(None, extra):
                    if is_failing(s3, t3, v3) and not [k for k in known if k["class"] == ck.classify(s3, t3, v3)]:
                        found = (s3, t3, v3)
                        break
            if found:
                s3, t3, v3 = found
                rp = ck.write_replay("%s-%d-search.json" % (PROP, seed),
                                     {"property": PROP, "kind": "failing-input", "class": ck.classify(s3, t3, v3),
                                      "scenario": s3, "impl_trace": t3, "verdict": v3})
                violations.append((ck.classify(s3, t3, v3), rp, True))
            else:
                rp = ck.write_replay("%s-%d-correspondence.json" % (PROP, seed),
                                     {"property": PROP, "kind": "correspondence-broken",
                                      "what": "the Lean model (engine %s) no longer reproduces the implementation on this "
                                              "input; the property predicate still holds on every implementation trace "
                                              "explored" % ENGINE,
                                      "count": len(disagree), "scenario": s, "impl_trace": t, "verdict": v})
                violations.append(("correspondence", rp, False))
        if (proof_broken or aud["problems"] or not driver_ok) and not violations:
            rp = ck.write_replay("%s-%d-proof.json" % (PROP, seed),
                                 {"property": PROP, "kind": "proof-obligation-broken", "modules": proof_broken,
                                  "problems": aud["problems"], "translator": trep,
                                  "build_output": out[-3000:] if not ok else ""})
            violations.append(("proof", rp, False))
    elif proof_broken or aud["problems"]:
        ck.notes.append("proof obligations also broken: %s %s" % (proof_broken, aud["problems"]))

    # 5. evidence (same shape as core.run_check)
    def cut(o, n=1500):
        js = json.dumps(o)
        return o if len(js) <= n else {"truncated": js[:n]}
    small = [r for r in results if len(json.dumps(r[0])) < 3000] or results
    samples = [{"scenario": cut(s), "impl_trace": cut({k: t[k] for k in list(t)[:12]}),
                "verdict": {k: v[k] for k in ("accepts", "holds", "violated") if k in v}}
               for (s, t, v) in small[:1] + small[len(small) // 2: len(small) // 2 + 1]]
    n_sessions = sum(len(s.get("sessions", [])) for (s, t, v) in results)
    n_calls = sum(len(t.get("hist") or []) for (s, t, v) in results)
    cov = {
        "obligations": obligations, "discharged": discharged,
        "checker_cmd": "cd /verif/lean && lake build && lake env lean .lake/audit/audit_%s.lean%s" % (
            PROP, " && lake env leanchecker OomdProps.%s" % PROP if tier == "thorough" else ""),
        "trusted_base": ["Lean 4.33.0 kernel", "axioms used: " + ", ".join(aud["axioms"]),
                         "tools/extract.py (translator for tables)",
                         "harness/%s.cpp + vlib (correspondence check)" % HARNESS] + TRUSTED,
        "theorems": [t["thm"] for t in aud["theorems"]],
        "leanchecker": (lc[0] if lc else None),
        "evaluations": len(results), "distinct_nontrivial": len(nontriv), "distinct": len(canon),
        "traces_validated_against_impl": len(results),
        "client_sessions": n_sessions, "api_calls": n_calls,
        "model_disagreements": len(disagree), "property_failures": len(failing),
        "known_finding_hits": {c: n for c, (k, n) in known_hits.items()},
        "rule": RULE, "samples": samples, "distribution": dist, "translator": trep, "notes": ck.notes,
        "exhaustive": tier in ("quick", "thorough"),
        "exhaustive_what": "all 1-byte and all 2-byte requests (EOF-terminated); all socket path lengths 100..120",
        "flavours": ["tsan", "asan"],
    }
    ev = {"property_id": PROP, "tier": "thorough" if tier == "thorough" else "quick", "seed": seed, "level": "proof",
          "coverage": cov, "assumptions": ASSUMPTIONS, "wall_s": round(time.time() - t_start, 2),
          "violations": len(violations)}
    core.ensure_dir(core.EVIDENCE_DIR)
    with open(os.path.join(core.EVIDENCE_DIR, PROP + ".json"), "w") as f:
        json.dump(ev, f, indent=1)

    for cls, (k, n) in sorted(known_hits.items()):
        print("KNOWN-FINDING: property=%s class=%s %s (%d inputs this run)" % (PROP, cls, k["text"], n))
    for k in known:
        if k["class"] not in known_hits:
            core.log("[note] known finding %s not reproduced this run" % k["class"])
    for cls, rp, has_input in violations:
        print("VIOLATION property=%s replay=%s%s" % (PROP, rp, "" if has_input else " no-failing-input-found"))
    core.log("[%s] %s tier, seed %d: %d scenarios (%d client sessions, %d API calls), %d non-trivial, %d theorems, "
             "%d disagreements, %d failures, %.1fs" % (PROP, tier, seed, len(results), n_sessions, n_calls, len(nontriv),
                                                     len(aud["theorems"]), len(disagree), len(failing),
                                                     time.time() - t_start))
    core.prune_cache()
    return 1 if violations else 0
FLAVOURS = ("tsan", "asan")

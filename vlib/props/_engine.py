"""Shared generator for the engine family (C02, C05, C06): engine h_engine, driver drv_engine."""
import itertools

ENGINE = "engine"
HARNESS = "h_engine"
FLAVOUR = "asan"
S = 1000000000
ASSUMPTIONS = [
    "plugins are scripted: a plugin's behaviour in one run() is (return value, clock advance, optional pause_actions call "
    "made immediately before returning STOP - the BaseKillPlugin::run protocol; C06 adds 8% histories where an action "
    "pauses its ruleset and then returns ASYNC_PAUSED: there only the C06 clauses are decided, the pause bookkeeping follows the code)",
    "steady_clock is the harness's virtual CLOCK_MONOTONIC (non-decreasing, starts at 1000 s)",
]
TRUSTED = ["scripted plugins + virtual clock in harness/h_engine.cpp; in main_loop mode the interposed sigtimedwait / pthread_kill that "
           "turn Oomd::run into N ticks"]


def mk_rulesets(rng, nrs=None, small=False):
    inst = 0
    rss = []
    for rid in range(nrs or rng.randint(1, 4)):
        groups = []
        for gid in range(rng.randint(1, 2 if small else 3)):
            dets = []
            for _ in range(rng.randint(1, 2 if small else 3)):
                dets.append(inst)
                inst += 1
            groups.append({"gid": gid + 10 * rid, "dets": dets})
        acts = []
        for _ in range(rng.randint(1, 4)):
            acts.append(inst)
            inst += 1
        rss.append({"rid": rid, "groups": groups, "actions": acts,
                    "delay": rng.choice(["", "0", "1", "2", "5", "15", "30"]),
                    "hook_timeout": rng.choice(["", "0", "3", "5"]),
                    "silence": rng.choice(["", "engine", "plugins", "engine,plugins", " plugins , engine "])})
    return rss


def mk_tick(rng, rss, p_stop_det=0.25, p_async_act=0.3, relaxed=False):
    calls = {}
    for r in rss:
        quiet = rng.random() < 0.25       # no group fires for this ruleset on this tick
        for g in r["groups"]:
            for d in g["dets"]:
                x = rng.random()
                ret = 1 if (quiet or x < p_stop_det) else (2 if x < p_stop_det + 0.05 else 0)
                adv = rng.choice([0, 0, 0, S, S // 4])
                if ret or adv:
                    calls[str(d)] = [ret, adv, -1]
        for a in r["actions"]:
            x = rng.random()
            ret = 2 if x < p_async_act else (1 if x < p_async_act + 0.35 else 0)
            adv = rng.choice([0, 0, S, 2 * S, S // 2])
            pause = -1
            if ret == 1 and rng.random() < 0.4:
                pause = rng.choice([0, 1, 3, 7, 30])
            if relaxed and ret == 2 and rng.random() < 0.5:
                pause = rng.choice([1, 3, 7, 12])     # pauses its ruleset, then yields (outside the kill-plugin protocol)
            if ret or adv:
                calls[str(a)] = [ret, adv, pause]
    return {"gap": rng.choice([S, 5 * S, 5 * S, 5 * S, 2 * S, 10 * S, 15 * S, 0, 3 * S + S // 2]), "calls": calls}


def gen(rng, tier, prop):
    n = {"quick": 2500, "thorough": 60000, "search": 12000}[tier]
    for _ in range(n):
        rss = mk_rulesets(rng)
        # C06 only: 8% of the histories have actions that call pause_actions() and then return ASYNC_PAUSED - not what the
        # kill plugins do, but the engine must not lose the suspended chain while the ruleset is paused
        relaxed = prop == "C06" and rng.random() < 0.08
        ticks = [mk_tick(rng, rss, relaxed=relaxed) for _ in range(rng.randint(3, 14))]
        sc = {"prop": prop, "rulesets": rss, "ticks": ticks}
        if relaxed:
            sc["relaxed"] = True
        # a third of the histories are run as iterations of the real main loop (Oomd::run: updateDropIns, updateContext,
        # Engine::prerun, Engine::runOnce between two sigtimedwait calls) instead of calling the engine directly
        if rng.random() < 0.33:
            sc["main_loop"] = True
        yield sc
    if tier == "thorough":
        # exhaustive: 1 ruleset, 1 group, 1 detector, 2 actions, 3 ticks, all return values,
        # stop with/without own delay; gaps 5 s
        rs = [{"rid": 0, "groups": [{"gid": 0, "dets": [0]}], "actions": [1, 2], "delay": "7", "hook_timeout": "", "silence": ""}]
        per_tick = []
        for d in (0, 1):
            for a1 in ((0, -1), (1, -1), (1, 12), (2, -1)):
                for a2 in ((0, -1), (1, -1), (2, -1)):
                    per_tick.append({"0": [d, 0, -1], "1": [a1[0], S, a1[1]], "2": [a2[0], 0, a2[1]]})
        for combo in itertools.product(per_tick, repeat=3):
            for gap in (5 * S, 8 * S):
                yield {"prop": prop, "rulesets": rs, "ticks": [{"gap": gap, "calls": c} for c in combo] + [{"gap": gap, "calls": {}}]}


def stats(s, t):
    """(n action events, n stops, n asyncs, n ticks with actions)"""
    na = ns = nas = 0
    for tk, evs in zip(s["ticks"], t.get("ticks", [])):
        for e in evs:
            if e[0] == "a":
                na += 1
                c = tk["calls"].get(str(e[1]), [0, 0, -1])
                ns += c[0] == 1
                nas += c[0] == 2
    return na, ns, nas


def bucket(s, t, v):
    na, ns, nas = stats(s, t)
    b = ["rulesets=%d" % len(s["rulesets"]), "acts=%s" % ("0" if na == 0 else "1-5" if na <= 5 else ">5"),
         "stops=%d" % min(ns, 3), "asyncs=%d" % min(nas, 3)]
    own = any(c[2] >= 0 for tk in s["ticks"] for c in tk["calls"].values())
    if own:
        b.append("own_delay")
    return b


def shrink_candidates(s):
    tk = s["ticks"]
    for i in range(len(tk)):
        yield dict(s, ticks=tk[:i] + tk[i + 1:])
    if len(s["rulesets"]) > 1:
        for i in range(len(s["rulesets"])):
            yield dict(s, rulesets=s["rulesets"][:i] + s["rulesets"][i + 1:])
    for i in range(len(tk)):
        for k in list(tk[i]["calls"]):
            c = dict(tk[i]["calls"])
            del c[k]
            yield dict(s, ticks=tk[:i] + [dict(tk[i], calls=c)] + tk[i + 1:])

"""C14 - drop-in directory watcher: race-free, never fatal, converges to the files present
(engine h_watcher: real FsDropInService + adaptor + parser + compiler + Engine, real inotify, real time, TSan).

The generic pipeline of vlib/core.py is used unchanged: a TSan report, a crash, std::terminate or a deadlock
(in-harness watchdog) of the real code ends the harness process (`halt_on_error=1`) and is attributed to the
scenario that was running; the operation script is the replay.
"""
import json
import os

PROP = "C14"
ENGINE = "watcher"
HARNESS = "h_watcher"
FLAVOUR = "tsan"
JOBS = 8
CHUNK = 20
TIMEOUT = 240

os.environ.setdefault("TSAN_OPTIONS", "halt_on_error=1:second_deadlock_stack=1")

RULE = ("real FsDropInService on a scratch directory (real inotify) with a real Engine compiled from a two-ruleset "
        "base config over scripted plugins; file-operation scripts (create/rewrite in one or two write(2) calls, "
        "rename in / out / inside incl. to and from dot-names, delete, truncate, sub-directories, delete + re-create "
        "the directory, directory absent at start) over a 10-name pool with 20 kinds of content (8 valid shapes, "
        "12 invalid: bad/empty/partial JSON, wrong shape, unknown target/plugin, part not opened up, failing init, "
        "non-numeric / overflowing / negative delays, failing second ruleset), interleaved with main-loop ticks "
        "(updateDropIns + prerun + runOnce) either at script positions (seq) or continuously from the main thread "
        "while a helper thread performs the file operations (par); families: startup, churn, par, rewrite-invalid, "
        "badnum, recreate, reload-race, rescan-race (directory re-created with several files inside, incl. large and "
        "invalid ones; one to three of them deleted / replaced / renamed by a helper thread 0-4 ms into the tick "
        "that re-registers and re-scans; the OOMD_VERIF yield point pauses the scanning thread up to 1-3 ms per "
        "file), rename, partial, nodir, same-content (byte-identical valid content written "
        "again to the same or another name after invalid content / truncation / slow in-place rewrite / delete / "
        "rename away and back / directory re-creation; the general families also re-use earlier content with "
        "probability 0.2), realplugin (a real core plugin with arbitrary arguments is compiled "
        "on the watcher thread; never executed).  After the script: wait for the watcher to go idle (inotify "
        "queue empty and thread in epoll_wait), 3 ticks, probe, 15 ms, tick, probe again.  non-trivial = at least "
        "two file operations and, at the end, an active drop-in or an invalid / dot file present")
ASSUMPTIONS = [
    "family overflow needs a writable /proc/sys/fs/inotify/max_queued_events (the harness gives the service under test a queue "
    "of 16 events and restores the value at once); where it is read-only the bursts do not overflow and the family only "
    "repeats the churn family (evidence: overflow_scenarios_with_small_queue)","data races, deadlock and lock-order inversions are OBSERVED (ThreadSanitizer on the schedules the "
               "sandbox and the par/seq modes produce), not proved; the Lean theorems cover the logic for every "
               "interleaving of the modelled atomic steps",
               "inotify delivers an event after the last change of every file, or reports IN_Q_OVERFLOW when it dropped some (hypothesis `Faithful` of "
               "C14.files_present_partial; after an overflow the re-scan re-establishes it: C14.overflow_resync_restores_faithfulness)",
               "files appear through write(2) or rename(2) (docs/drop_in_configs.md: 'modified-in or moved-into'); the directory goes away by rmdir or by being renamed away (op mvdir); "
               "hard links (IN_CREATE only) are outside the property text and not generated",
               "epoll/inotify system calls on valid descriptors do not fail (FsDropInService::run OCHECKs that)",
               "validity of a file's content and the rulesets it targets are the generator's labels (each kind is "
               "constructed to be valid / invalid); a wrong label shows up as a violation, never as a pass",
               "a drop-in ruleset that overrides neither detectors nor actions is indistinguishable from its base "
               "in the probe and is not generated"]
TRUSTED = ["ThreadSanitizer; real-time scheduling of the sandbox (which interleavings occur)",
           "Linux inotify / epoll (which events are delivered for a file operation)",
           "harness quiescence detector (/proc/self/task/<tid>/syscall + FIONREAD on the inotify fd)",
           "family overflow: the harness writes fs.inotify.max_queued_events (16) for the instant in which the service under test "
           "creates its inotify instance and restores the previous value (a value below 1024 found there is taken for a leftover "
           "and replaced by the kernel default 16384); harness processes serialise on $VERIF_SCRATCH/inotify-sysctl.lock"]

NAMES = ["a.json", "b.json", "c", "d.conf", "A", "z9", "_x", "~y", ".hid", ".tmp"]
VALID_KINDS = ["det0", "act0", "act1", "multi", "multi00", "delay", "vempty", "comment"]
INVALID_KINDS = ["json", "empty", "partial", "shape", "target", "plugin", "perm", "init", "badnum", "neg", "second", "noname"]


# ------------------------------------------------------------------------------------------------
# file contents with labels
# ------------------------------------------------------------------------------------------------
def det(inst):
    return {"name": "vdetector", "args": {"inst": str(inst)}}


def act(inst, **extra):
    a = {"name": "vaction", "args": {"inst": str(inst)}}
    a["args"].update(extra)
    return a


def rs_det(cid, i, base):
    return {"name": "r%d" % base, "detectors": [["dg%d" % i, det(cid * 100 + i * 10), det(cid * 100 + i * 10 + 1)]]}


def rs_act(cid, i, base):
    return {"name": "r%d" % base, "actions": [act(cid * 100 + i * 10)]}


def make_content(rng, cid, kind):
    """-> {"text", "valid", "kind", "targets"}"""
    valid, targets = True, []
    if kind == "det0":
        doc, targets = {"rulesets": [rs_det(cid, 0, 0)]}, [0]
    elif kind == "act0":
        doc, targets = {"rulesets": [rs_act(cid, 0, 0)]}, [0]
    elif kind == "act1":
        doc, targets = {"rulesets": [rs_act(cid, 0, 1)]}, [1]
    elif kind == "multi":
        doc, targets = {"rulesets": [rs_det(cid, 0, 0), rs_act(cid, 1, 1)]}, [0, 1]
    elif kind == "multi00":
        doc, targets = {"rulesets": [rs_det(cid, 0, 0), rs_act(cid, 1, 0), rs_act(cid, 2, 1)]}, [0, 0, 1]
    elif kind == "delay":
        r = rs_act(cid, 0, rng.choice([0, 1]))
        r[rng.choice(["post_action_delay", "prekill_hook_timeout"])] = rng.choice(["7", "0", " 12", 30])
        doc, targets = {"rulesets": [r]}, [int(r["name"][1])]
    elif kind == "big":
        r = {"name": "r0", "detectors": [["dg0"] + [det(cid * 100 + j % 10) for j in range(rng.randint(30, 80))]]}
        doc, targets = {"rulesets": [r]}, [0]
    elif kind == "vempty":
        doc = rng.choice([{}, {"rulesets": []}, None, {"other": 1}])
    elif kind == "comment":
        text = "// a comment\n" + json.dumps({"rulesets": [rs_act(cid, 0, 1)]}, indent=1) + "\n"
        return {"text": text, "valid": True, "kind": kind, "targets": [1]}
    else:
        valid = False
        if kind == "json":
            text = rng.choice(["{ not json", "}{", "\x00\x01\x02", '{"rulesets": [', "rulesets"])
            return {"text": text, "valid": False, "kind": kind, "targets": []}
        if kind == "empty":
            return {"text": "", "valid": False, "kind": kind, "targets": []}
        if kind == "partial":
            full = json.dumps({"rulesets": [rs_det(cid, 0, 0)]})
            return {"text": full[:rng.randint(1, len(full) - 2)], "valid": False, "kind": kind, "targets": []}
        if kind == "shape":
            doc = rng.choice([[1, 2], {"rulesets": ["x"]}, {"rulesets": [{"name": "r0", "actions": [5]}]},
                              {"rulesets": [{"name": "r0", "detectors": [[{"name": "vdetector"}]]}]},
                              {"rulesets": [{"name": {"a": 1}}]}, "str", 17])
            # a ruleset whose action is not an object parses to an unnamed plugin -> rejected by the compiler
        elif kind == "target":
            r = rs_act(cid, 0, 0)
            r["name"] = rng.choice(["nope", "", "r2", "R0"])
            doc = {"rulesets": [r]}
        elif kind == "plugin":
            r = rs_act(cid, 0, 1)
            r["actions"][0]["name"] = rng.choice(["no_such_plugin", "", "Vaction"])
            doc = {"rulesets": [r]}
        elif kind == "perm":
            doc = {"rulesets": [rs_det(cid, 0, 1)]}      # r1 does not open its detectors
        elif kind == "init":
            r = rs_act(cid, 0, rng.choice([0, 1]))
            r["actions"].append(act(cid * 100 + 1, fail_init="1"))
            doc = {"rulesets": [r]}
        elif kind == "badnum":
            r = rs_act(cid, 0, rng.choice([0, 1]))
            r[rng.choice(["post_action_delay", "prekill_hook_timeout"])] = rng.choice(
                ["abc", "99999999999999999999", "-", "x1", "2147483648", True])
            doc = {"rulesets": [r]}
        elif kind == "neg":
            r = rs_act(cid, 0, rng.choice([0, 1]))
            r[rng.choice(["post_action_delay", "prekill_hook_timeout"])] = rng.choice(["-1", "-300"])
            doc = {"rulesets": [r]}
        elif kind == "second":
            bad = rs_act(cid, 1, 1)
            bad["name"] = "nope"
            doc = {"rulesets": [rs_det(cid, 0, 0), bad]}
        elif kind == "noname":
            doc = {"rulesets": [{"name": "r0", "detectors": [[det(cid * 100)]]}]}
        else:
            raise ValueError(kind)
    return {"text": json.dumps(doc), "valid": valid, "kind": kind, "targets": targets}


class Builder:
    def __init__(self, rng, family):
        self.rng, self.family = rng, family
        self.contents, self.next = {}, 1
        self.ops, self.init = [], []

    def content(self, kind=None, valid=None):
        rng = self.rng
        if kind is None:
            if valid is None:
                valid = rng.random() < 0.65
            kind = rng.choice(VALID_KINDS if valid else INVALID_KINDS)
            if kind == "badnum" and self.family not in ("badnum",) and rng.random() < 0.7:
                kind = "neg"      # keep the fatal class mostly in its own family
        cid = self.next
        self.next += 1
        self.contents[str(cid)] = make_content(rng, cid, kind)
        return cid

    def again(self, p=0.2):
        """a content id: with probability p one that was used before (byte-identical bytes written again, to the same
        or to another name), otherwise a fresh one"""
        old = [int(k) for k, v in self.contents.items() if v["kind"] != "real"]
        if old and self.rng.random() < p:
            valid = [c for c in old if self.contents[str(c)]["valid"]]
            return self.rng.choice(valid if valid and self.rng.random() < 0.8 else old)
        return self.content()

    def name(self, dots=0.15):
        return self.rng.choice(NAMES[8:]) if self.rng.random() < dots else self.rng.choice(NAMES[:8])

    def pace(self, p_tick=0.25, p_wait=0.1, p_us=0.15):
        r = self.rng.random()
        if r < p_tick:
            self.ops.append({"op": "tick"})
        elif r < p_tick + p_wait:
            self.ops.append({"op": "wait"})
        elif r < p_tick + p_wait + p_us:
            self.ops.append({"op": "us", "n": self.rng.choice([50, 200, 1000, 3000])})

    def file_op(self):
        rng = self.rng
        r = rng.random()
        if r < 0.30:
            self.ops.append({"op": "write", "name": self.name(), "cid": self.again()})
        elif r < 0.40:
            cid = self.again()
            n = len(self.contents[str(cid)]["text"])
            self.ops.append({"op": "write2", "name": self.name(), "cid": cid, "at": rng.randint(1, max(1, n - 1)),
                             "us": rng.choice([0, 0, 100, 1500])})
        elif r < 0.52:
            self.ops.append({"op": "movein", "name": self.name(), "cid": self.again()})
        elif r < 0.64:
            self.ops.append({"op": "rename", "from": self.name(0.25), "to": self.name(0.25)})
        elif r < 0.72:
            self.ops.append({"op": "moveout", "name": self.name()})
        elif r < 0.86:
            self.ops.append({"op": "delete", "name": self.name()})
        elif r < 0.91:
            self.ops.append({"op": "trunc", "name": self.name()})
        elif r < 0.96:
            self.ops.append({"op": rng.choice(["mksub", "rmsub"]), "name": rng.choice(["sub", "sub2", ".sub"])})
        else:
            self.ops.append({"op": "write", "name": self.name(), "cid": self.content(valid=False)})

    def initial(self, k):
        names = self.rng.sample(NAMES, min(k, len(NAMES)))
        self.init = [[n, self.content()] for n in names]

    def scenario(self, mode="seq", probe0=False, nodir=False, **extra):
        s = {"family": self.family, "contents": self.contents, "init": None if nodir else self.init,
             "probe0": probe0, "mode": mode, "ops": self.ops,
             "yield_us": self.rng.choice([0, 0, 0, 100, 600, 2000])}
        s.update(extra)
        return s


def gen_startup(rng):
    b = Builder(rng, "startup")
    b.initial(rng.randint(0, 8))
    for _ in range(rng.choice([0, 0, 1, 3])):
        b.file_op()
        b.pace()
    return b.scenario(probe0=True, slash=rng.random() < 0.3)


def gen_churn(rng, mode="seq", n=None):
    b = Builder(rng, "churn" if mode == "seq" else "par")
    b.initial(rng.randint(0, 4))
    for _ in range(n or rng.randint(3, 25)):
        b.file_op()
        b.pace()
    return b.scenario(mode=mode, probe0=rng.random() < 0.2, tick_us=rng.choice([0, 50, 300, 2000]))


def gen_rewrite_invalid(rng):
    """a valid file, applied or not, is overwritten by invalid content (in place, by rename, by truncation)"""
    b = Builder(rng, "rewrite-invalid")
    b.initial(rng.randint(0, 2))
    n = b.name(0)
    if rng.random() < 0.3 and b.init:
        n = b.init[0][0]
    else:
        b.ops.append({"op": rng.choice(["write", "movein"]), "name": n, "cid": b.content(valid=True)})
    b.pace(0.5, 0.4, 0.0)
    b.pace(0.6, 0.0, 0.0)
    how = rng.random()
    if how < 0.5:
        b.ops.append({"op": "write", "name": n, "cid": b.content(valid=False)})
    elif how < 0.75:
        b.ops.append({"op": "movein", "name": n, "cid": b.content(valid=False)})
    else:
        b.ops.append({"op": "trunc", "name": n})
    for _ in range(rng.randint(0, 3)):
        b.pace()
        b.file_op()
    return b.scenario()


def gen_badnum(rng):
    b = Builder(rng, "badnum")
    where = rng.random()
    if where < 0.3:
        b.initial(rng.randint(0, 2))
        b.init.append([b.name(0), b.content(kind="badnum")])
    else:
        b.initial(rng.randint(0, 2))
        for _ in range(rng.randint(0, 3)):
            b.file_op()
            b.pace()
        b.ops.append({"op": rng.choice(["write", "movein"]), "name": b.name(0), "cid": b.content(kind="badnum")})
        if where > 0.8:
            # seen by the main thread: the directory is re-created with the file in it
            b.ops = [{"op": "rmdir"}, {"op": "mkdir"}] + b.ops[-1:] + [{"op": "tick"}]
    return b.scenario(mode=rng.choice(["seq", "par"]))


def gen_recreate(rng):
    b = Builder(rng, "recreate")
    b.initial(rng.randint(0, 4))
    for _ in range(rng.randint(1, 3)):
        for _ in range(rng.randint(0, 4)):
            b.file_op()
            b.pace()
        b.ops.append({"op": "rmdir"})
        b.pace(0.3, 0.3, 0.3)
        b.ops.append({"op": "mkdir"})
        b.pace(0.3, 0.2, 0.2)
        for _ in range(rng.randint(0, 5)):
            b.file_op()
            b.pace(0.2, 0.1, 0.1)
    return b.scenario(mode=rng.choice(["seq", "seq", "par"]), tick_us=rng.choice([0, 100, 1000]))


def gen_overflow(rng):
    """more events than the service's inotify queue holds (the harness gives this service a queue of 16 events): a burst of
    rewrites of two files; during the burst - when events are being dropped - other files are deleted, rewritten, created,
    moved in or out.  After the burst the directory is quiet: the active set must still converge to the files present."""
    b = Builder(rng, "overflow")
    b.initial(rng.randint(2, 5))
    names = [n for n, _ in b.init]
    x, y = b.name(0), b.name(0)
    while y == x:
        y = b.name(0)
    cx, cy = b.content(valid=True), b.content(valid=True)
    b.ops += [{"op": "wait"}, {"op": "tick"}]
    burst = rng.randint(60, 160)
    at = sorted(rng.sample(range(20, burst), rng.randint(1, 4)))
    for i in range(burst):
        b.ops.append({"op": "write", "name": x, "cid": cx})
        b.ops.append({"op": "write", "name": y, "cid": cy})
        if i in at:
            r = rng.random()
            victim = rng.choice(names) if names else b.name(0)
            if r < 0.4:
                b.ops.append({"op": rng.choice(["delete", "moveout"]), "name": victim})
            elif r < 0.7:
                b.ops.append({"op": rng.choice(["write", "movein"]), "name": victim, "cid": b.content()})
            elif r < 0.9:
                b.ops.append({"op": rng.choice(["write", "movein"]), "name": b.name(0), "cid": b.content(valid=True)})
            else:
                b.ops.append({"op": "rename", "from": victim, "to": b.name(0)})
    if rng.random() < 0.45:
        # ... and the directory itself goes away while the overflow is being digested (its DELETE_SELF can arrive in the same
        # batch as the overflow marker), then comes back with other content
        b.ops.append({"op": "rmdir"})
        b.pace(0.2, 0.0, 0.4)
        b.ops.append({"op": "mkdir"})
        for _ in range(rng.randint(1, 3)):
            b.ops.append({"op": rng.choice(["write", "movein"]), "name": b.name(0), "cid": b.content(valid=True)})
    b.ops += [{"op": "wait"}, {"op": "tick"}, {"op": "us", "n": 100000}, {"op": "wait"}, {"op": "tick"}]
    s = b.scenario()
    s["yield_us"] = 0
    s["queue_limit"] = 16
    return s


def gen_nodir(rng):
    b = Builder(rng, "nodir")
    for _ in range(rng.randint(0, 2)):
        b.ops.append({"op": "tick"})
    b.ops.append({"op": "mkdir"})
    for _ in range(rng.randint(1, 8)):
        b.file_op()
        b.pace(0.3, 0.1, 0.1)
    return b.scenario(nodir=True, mode=rng.choice(["seq", "par"]))


def gen_rename(rng):
    b = Builder(rng, "rename")
    b.initial(rng.randint(1, 5))
    present = [n for n, _ in b.init]
    for _ in range(rng.randint(2, 12)):
        r = rng.random()
        if present and r < 0.6:
            src = rng.choice(present)
            dst = b.name(0.3)
            b.ops.append({"op": "rename", "from": src, "to": dst})
            present = [p for p in present if p != src]
            if dst not in present:
                present.append(dst)
        elif r < 0.8:
            n = b.name(0.2)
            b.ops.append({"op": "movein", "name": n, "cid": b.content()})
            if n not in present:
                present.append(n)
        elif present:
            n = rng.choice(present)
            b.ops.append({"op": rng.choice(["moveout", "delete"]), "name": n})
            present = [p for p in present if p != n]
        b.pace(0.2, 0.1, 0.1)
    return b.scenario(mode=rng.choice(["seq", "par"]))


def gen_partial(rng):
    b = Builder(rng, "partial")
    b.initial(rng.randint(0, 2))
    for _ in range(rng.randint(1, 6)):
        cid = b.content(valid=rng.random() < 0.8)
        n = len(b.contents[str(cid)]["text"])
        b.ops.append({"op": "write2", "name": b.name(0.1), "cid": cid, "at": rng.randint(1, max(1, n - 1)),
                      "us": rng.choice([0, 100, 1000, 5000])})
        b.pace(0.4, 0.1, 0.1)
    return b.scenario(mode=rng.choice(["seq", "par"]), tick_us=rng.choice([0, 100]))


REAL = [("d", "pressure_above", ["cgroup", "resource", "threshold", "duration"]),
        ("d", "pressure_rising_beyond", ["cgroup", "resource", "threshold", "duration", "fast_fall_ratio"]),
        ("d", "memory_above", ["cgroup", "threshold", "threshold_anon", "duration"]),
        ("d", "memory_reclaim", ["cgroup", "duration"]),
        ("d", "swap_free", ["threshold_pct"]),
        ("d", "nr_dying_descendants", ["cgroup", "count", "lte"]),
        ("d", "exists", ["cgroup", "negate"]),
        ("d", "dump_cgroup_overview", ["cgroup", "always"]),
        ("d", "adjust_cgroup", ["cgroup", "memory_scale", "memory"]),
        ("d", "stop", []), ("d", "continue", []),
        ("a", "kill_by_memory_size_or_growth", ["cgroup", "size_threshold", "growth_threshold", "min_growth_ratio",
                                                "post_action_delay", "dry", "recursive"]),
        ("a", "kill_by_swap_usage", ["cgroup", "threshold", "biased_swap_kill"]),
        ("a", "kill_by_pressure", ["cgroup", "resource", "post_action_delay", "reap_memory", "kernelkill"]),
        ("a", "kill_by_io_cost", ["cgroup", "post_action_delay"]),
        ("a", "kill_by_pg_scan", ["cgroup"]),
        ("a", "senpai", ["cgroup", "limit_min_bytes", "limit_max_bytes", "interval", "pressure_ms", "max_probe",
                         "immediate_backoff", "swap_threshold", "swapout_bps_threshold"]),
        ("a", "systemd_restart", ["service", "post_action_delay", "dry"]),
        ("a", "dump_kill_info_noop", [])]
REAL_VALUES = ["", "abc", "x", "memory", "io", "80", "10", "-1", "1.5", "12Q", "5%", "1e99999", "nan", "true", "maybe",
               "99999999999999999999", "-", "w/*", "a,b", "0", " 7", "7 ", "2147483648", "1G", "50%"]


def gen_realplugin(rng):
    """a real core plugin with arbitrary arguments is compiled on the watcher thread (or by the main thread's reload)
    and must never bring the process down; the file is gone at the end, so its validity needs no label, and no tick
    runs while it is queued, so the plugin itself never executes"""
    b = Builder(rng, "realplugin")
    b.initial(rng.randint(0, 2))
    role, plugin, argnames = rng.choice(REAL)
    args = {a: rng.choice(REAL_VALUES) for a in argnames if rng.random() < 0.8}
    if rng.random() < 0.15:
        args["surprise"] = rng.choice(REAL_VALUES)
    r = {"name": "r0"}
    if role == "d":
        r["detectors"] = [["g", {"name": plugin, "args": args}]]
    else:
        r["actions"] = [{"name": plugin, "args": args}]
    cid = b.next
    b.next += 1
    b.contents[str(cid)] = {"text": json.dumps({"rulesets": [r]}), "valid": False, "kind": "real", "targets": []}
    n = b.name(0)
    b.ops.append({"op": rng.choice(["write", "movein"]), "name": n, "cid": cid})
    b.ops.append({"op": "wait"})
    b.ops.append({"op": rng.choice(["delete", "moveout"]), "name": n})
    b.ops.append({"op": "wait"})
    return b.scenario()


def gen_same_content(rng):
    """byte-identical valid content X comes back to a name after something made the service drop it (or not): X,
    invalid, X; X, truncate, pause, X; X rewritten in place slowly; X, delete, X; X, rename away and back; two names
    with the same X; X again after the directory was deleted and re-created"""
    b = Builder(rng, "same-content")
    b.initial(rng.randint(0, 2))
    n = b.name(0)
    x = b.content(valid=True)
    while not b.contents[str(x)]["targets"]:
        x = b.content(valid=True)
    text = b.contents[str(x)]["text"]

    def put(cid, slow=False):
        how = rng.random()
        if slow or how < 0.25:
            t = b.contents[str(cid)]["text"]
            b.ops.append({"op": "write2", "name": n, "cid": cid, "at": rng.randint(1, max(1, len(t) - 1)),
                          "us": rng.choice([500, 3000, 8000]) if slow else rng.choice([0, 200, 2000])})
        elif how < 0.65:
            b.ops.append({"op": "write", "name": n, "cid": cid})
        else:
            b.ops.append({"op": "movein", "name": n, "cid": cid})

    def gap():
        r = rng.random()
        if r < 0.35:
            b.ops += [{"op": "wait"}, {"op": "tick"}]
        elif r < 0.5:
            b.ops.append({"op": "wait"})
        elif r < 0.65:
            b.ops.append({"op": "tick"})
        elif r < 0.8:
            b.ops.append({"op": "us", "n": rng.choice([100, 1000, 4000])})

    if b.init and rng.random() < 0.3:
        b.init[0] = [n, x]
        b.init = [f for i, f in enumerate(b.init) if i == 0 or f[0] != n]
    else:
        put(x)
    gap()
    for _ in range(rng.randint(1, 3)):
        pat = rng.choice(["invalid", "trunc", "slow", "delete", "away-back", "twin", "recreate", "other-valid"])
        if pat == "invalid":
            put(b.content(valid=False))
            gap()
            put(x)
        elif pat == "trunc":
            b.ops.append({"op": "trunc", "name": n})
            gap()
            put(x)
        elif pat == "slow":
            put(x, slow=True)
        elif pat == "delete":
            b.ops.append({"op": rng.choice(["delete", "moveout"]), "name": n})
            gap()
            put(x)
        elif pat == "away-back":
            m = rng.choice([".tmp", ".hid", "z9", "_x"])
            if m != n:
                b.ops.append({"op": "rename", "from": n, "to": m})
                gap()
                b.ops.append({"op": "rename", "from": m, "to": n})
        elif pat == "twin":
            m = b.name(0.1)
            b.ops.append({"op": rng.choice(["write", "movein"]), "name": m, "cid": x})
            if rng.random() < 0.4:
                gap()
                b.ops.append({"op": "delete", "name": rng.choice([m, n])})
                if rng.random() < 0.5:
                    gap()
                    put(x)
        elif pat == "recreate":
            b.ops.append({"op": "rmdir"})
            gap()
            b.ops.append({"op": "mkdir"})
            gap()
            put(x)
        else:
            put(b.content(valid=True))
            gap()
            put(x)
        gap()
    assert text == b.contents[str(x)]["text"]
    return b.scenario(mode=rng.choice(["seq", "seq", "par"]), tick_us=rng.choice([0, 100, 1000]))


def gen_rescan_race(rng):
    """the directory is deleted and re-created with several files inside; the next tick re-registers the watch and
    re-scans them on the main thread, and while that scan runs a helper thread deletes / replaces / renames one of
    the files (seq mode with a background op 0-4 ms after the tick starts; or par mode).  The yield hook between
    reading a file and scheduling it pauses the scanning thread up to 1-3 ms per file and the watcher not at all, so
    the file operation falls inside the scan; large and invalid neighbours stretch parse + compile as well."""
    b = Builder(rng, "rescan-race")
    b.initial(rng.randint(0, 3))
    names = rng.sample(NAMES[:8], rng.randint(2, 6))
    b.ops.append({"op": "rmdir"})
    b.ops.append({"op": "wait"})
    if rng.random() < 0.3:
        b.ops.append({"op": "tick"})
    b.ops.append({"op": "mkdir"})
    cur = {}
    for n in names:
        r = rng.random()
        cur[n] = b.content(kind="big") if r < 0.2 else b.content(valid=False) if r < 0.35 else b.content(valid=True)
        b.ops.append({"op": rng.choice(["write", "movein"]), "name": n, "cid": cur[n]})
    victims = rng.sample(names, rng.randint(1, min(3, len(names))))
    acts = []
    for f in victims:
        r = rng.random()
        if r < 0.45:
            acts.append({"op": rng.choice(["delete", "moveout"]), "name": f})
        elif r < 0.75:
            acts.append({"op": rng.choice(["write", "movein"]), "name": f, "cid": b.content(valid=True)})
        elif r < 0.85:
            acts.append({"op": "write", "name": f, "cid": b.content(valid=False)})
        else:
            # (a target no other operation of this scenario touches: background ops run in no fixed order)
            free = [x for x in NAMES if x not in names and x not in [a.get("to") for a in acts]]
            acts.append({"op": "rename", "from": f, "to": rng.choice(free)})
    span = 700 * len(names)
    if rng.random() < 0.75:
        for a in acts:
            b.ops.append({"op": "bg", "us": rng.randint(0, span + 1500), "do": a})
        if rng.random() < 0.3:
            b.ops.append({"op": "us", "n": rng.choice([100, 1000, 3000])})
        b.ops.append({"op": "tick"})
        mode = "seq"
    else:
        b.ops.append({"op": "us", "n": rng.randint(0, 3000)})
        for a in acts:
            b.ops.append(a)
            b.ops.append({"op": "us", "n": rng.randint(0, 3000)})
        mode = "par"
    s = b.scenario(mode=mode, tick_us=rng.choice([0, 100, 500]))
    s["yield_us"] = 0
    s["yield_main_us"] = rng.choice([1000, 2000, 3000])
    s["yield_watcher_us"] = rng.choice([0, 0, 0, 200])
    return s


def gen_reload_race(rng):
    """the directory is re-created and one or two names are rewritten again and again with different valid contents
    while the main thread ticks continuously: the re-registration's load of the existing files (main thread) overlaps
    with the watcher's handling of the events for the same names"""
    b = Builder(rng, "reload-race")
    b.initial(rng.randint(0, 3))
    names = rng.sample(NAMES[:8], rng.randint(1, 2))
    b.ops.append({"op": "rmdir"})
    if rng.random() < 0.5:
        b.ops.append({"op": "us", "n": rng.choice([100, 500, 2000])})
    b.ops.append({"op": "mkdir"})
    for _ in range(rng.randint(4, 14)):
        b.ops.append({"op": rng.choice(["write", "write", "movein"]), "name": rng.choice(names), "cid": b.content(valid=True)})
        if rng.random() < 0.7:
            b.ops.append({"op": "us", "n": rng.choice([50, 200, 800, 2500])})
    s = b.scenario(mode="par", tick_us=rng.choice([0, 50, 300]))
    s["yield_us"] = rng.choice([0, 300, 1500, 4000])
    return s


FAMILIES = {"rescan-race": gen_rescan_race, "startup": gen_startup, "realplugin": gen_realplugin, "same-content": gen_same_content, "reload-race": gen_reload_race, "churn": gen_churn, "par": lambda r: gen_churn(r, "par"),
            "rewrite-invalid": gen_rewrite_invalid, "badnum": gen_badnum, "recreate": gen_recreate,
            "rename": gen_rename, "partial": gen_partial, "nodir": gen_nodir, "overflow": gen_overflow,
            "long": lambda r: gen_churn(r, r.choice(["seq", "par"]), n=r.randint(40, 120))}


def gen(rng, tier):
    n = {"quick": 2, "thorough": 50, "search": 3}[tier]
    plan = [("startup", 60), ("churn", 130), ("par", 130), ("rewrite-invalid", 60), ("badnum", 30), ("recreate", 90),
            ("rename", 50), ("partial", 40), ("nodir", 30), ("long", 12), ("realplugin", 40), ("reload-race", 40), ("same-content", 90), ("rescan-race", 150), ("overflow", 6)]
    if tier == "search":
        plan = [("churn", 100), ("par", 100), ("rewrite-invalid", 80), ("recreate", 80), ("badnum", 40), ("startup", 40),
                ("same-content", 80), ("rescan-race", 150), ("overflow", 10)]
    for fam, k in plan:
        for _ in range(k * n):
            sc = FAMILIES[fam](rng)
            # the directory can also go away by being renamed (the watcher gets IN_MOVE_SELF and no event per file): in a third
            # of the scenarios that remove it, it is moved away instead - a new one is created at the path just the same
            if fam != "overflow" and any(o["op"] == "rmdir" for o in sc.get("ops", [])) and rng.random() < 0.33:
                sc["ops"] = [({"op": "mvdir"} if o["op"] == "rmdir" else o) for o in sc["ops"]]
                sc["family"] = sc.get("family", fam) + "+mvdir"
            yield sc


# ------------------------------------------------------------------------------------------------
def _fileops(s):
    ops = [o["do"] if o["op"] == "bg" else o for o in s.get("ops", [])]
    return [o for o in ops if o["op"] not in ("tick", "wait", "us")]


def nontrivial(s, t, v):
    if t.get("outcome") != "ok":
        return False
    fd = t.get("final_dir") or []
    odd = any(n.startswith(".") or not s["contents"].get(str(c), {}).get("valid", False) for n, c in fd)
    return len(_fileops(s)) + len(s.get("init") or []) >= 2 and (v.get("active", 0) > 0 or odd)


def bucket(s, t, v):
    b = ["family:" + s.get("family", "corpus"), "mode:" + s.get("mode", "seq")]
    if t.get("outcome") != "ok":
        oc = str(t.get("outcome"))
        return b + ["outcome:" + (oc.split(":")[0] + ":" + oc.split("\n")[-1] if "\n" in oc else oc)]
    b.append("hooks:%s" % ("on" if t.get("hooks") else "off"))
    b.append("accepts-by:" + v.get("how", "?"))
    n = v.get("active", 0)
    b.append("active:%s" % ("0" if n == 0 else "1-2" if n <= 2 else "3-5" if n <= 5 else ">5"))
    if v.get("recreate"):
        b.append("dir-recreated")
    if v.get("drift"):
        b.append("probe-drift")
    if not t.get("idle_ok", True):
        b.append("idle-timeout")
    if not t.get("idle_reliable", True):
        b.append("idle-detector-unavailable")
    if t.get("fd_leak", 0) > 0:
        b.append("inotify-fd-leak")
    for n_, c in (t.get("final_dir") or []):
        k = s["contents"].get(str(c), {}).get("kind", "truncated")
        b.append("final:" + ("dot" if n_.startswith(".") else k))
    for o in _fileops(s):
        b.append("op:" + o["op"])
    return b


def extra_coverage(results):
    ok = [(s, t, v) for s, t, v in results if t.get("outcome") == "ok"]
    return {"ticks_run": sum(t.get("ticks", 0) for _, t, _ in ok),
            "file_operations": sum(len(_fileops(s)) for s, _, _ in ok),
            "hook_items_replayed": sum(len(t.get("items", [])) for _, t, _ in ok),
            "overflow_scenarios": sum(1 for s, _, _ in ok if s.get("queue_limit")),
            "overflow_scenarios_with_small_queue": sum(1 for _, t, _ in ok if t.get("queue_limit_ok")),
            "linearisation_replay": ("on (trace hooks present in the tree)" if any(t.get("hooks") for _, t, _ in ok)
                                     else "off (no trace hooks in the tree: accepts = canonical schedule through the model)"),
            "level_note": "proof, partial: races / deadlock / inotify delivery observed under TSan, not proved"}


def shrink_candidates(s):
    ops = s["ops"]
    for frac in (2, 4, 8):
        step = max(1, len(ops) // frac)
        for a in range(0, len(ops), step):
            if len(ops) - step >= 0 and ops[a:a + step]:
                yield dict(s, ops=ops[:a] + ops[a + step:])
    for i in range(len(ops)):
        yield dict(s, ops=ops[:i] + ops[i + 1:])
    init = s.get("init") or []
    for i in range(len(init)):
        yield dict(s, init=init[:i] + init[i + 1:])
    if s.get("mode") == "par":
        yield dict(s, mode="seq")
    if s.get("probe0"):
        yield dict(s, probe0=False)
    if s.get("yield_us"):
        yield dict(s, yield_us=0)
    used = {str(o["cid"]) for o in ops if "cid" in o} | {str(o["do"]["cid"]) for o in ops if "cid" in o.get("do", {})} \
        | {str(c) for _, c in init}
    if len(used) < len(s["contents"]):
        yield dict(s, contents={k: v for k, v in s["contents"].items() if k in used})

"""C10 - a tick survives missing / empty / unreadable / vanishing files (engine h_tick).

Two layers:
 * reader level: every modelled reader x every file state (absent / empty / open denied / read fails) + contents
   in the kernel's grammar + a malformed stream, compared with the Lean crash-point model OomdModel.Fault;
 * tick level: the real Oomd::run main loop with all core plugins configured, driven N ticks on a scratch tree,
   with every (control file x {absent, empty, denied}) single fault, sampled multi-faults, `d_type`-less
   directory entries, optional keys removed from /proc/vmstat, /proc/meminfo, memory.stat, and a cgroup removed /
   re-created at index k of the tick's file-open sequence (quick: sampled k, thorough: every k).
"""
import copy
import itertools
import json

from vlib import core

PROP = "C10"
ENGINE = "tick"
HARNESS = "h_tick"
FLAVOUR = "asan"
TIMEOUT = 240
OUTCOME_IN_MODEL = True   # a crash of the real code is an outcome class the driver compares with the model (`ub`)
RULE = ("reader x file-state matrix (exhaustive) + grammar / malformed contents; main-loop runs with single faults for "
        "every control file of target and non-target cgroups, removal / re-creation at open index k, an entry vanishing between readdir() and the next access to it, DT_UNKNOWN, missing "
        "optional keys. non-trivial = a fault was actually injected on a path the tick reads (tick level) or the reader "
        "saw a non-well-formed state (reader level)")
ASSUMPTIONS = [
    "the scratch cgroup tree is ordinary files; kernfs-specific errors (ENODEV on read) are injected as 'read fails' (a directory in place of the file) and 'open denied'",
    "memory safety outside the modelled index operations and absence of hangs are observed under ASan/UBSan/_GLIBCXX_ASSERTIONS with a watchdog, not proved (level: proof, partial)",
    "contents outside the property's fault domain (garbage numbers, truncated PSI lines) are compared with the model but do not decide the property",
]
TRUSTED = ["libc interposition layer of harness/h_tick.cpp (open/openat/fopen/readdir/kill/sigtimedwait)"]
EXHAUSTIVE = {"quick": False, "thorough": False}

READERS = {
    "memcurrent": ["123456\n", "0\n", "9223372036854775807\n"],
    "swapcurrent": ["0\n", "4096\n"],
    "pidscurrent": ["3\n"],
    "memlow": ["0\n", "max\n", "1048576\n"],
    "memhigh": ["max\n", "5000\n"],
    "memmax": ["max\n", "9223372036854771712\n"],
    "memmin": ["0\n"],
    "swapmax": ["max\n", "0\n"],
    "memhightmp": ["max 0\n", "12345 20000\n"],
    "controllers": ["cpu io memory pids\n", "memory\n"],
    "populated": ["populated 1\nfrozen 0\n", "populated 0\nfrozen 0\n", "frozen 0\npopulated 1\n"],
    "oomgroup": ["1\n", "0\n"],
    "memstat": ["anon 10\nfile 20\npgscan 30\n"],
    "nrdying": ["nr_descendants 1\nnr_dying_descendants 2\n"],
    "vmstat": ["pgpgin 1\npswpout 22\n", "nr_free_pages 5\n"],
    "mempressure": ["some avg10=0.22 avg60=0.17 avg300=1.11 total=58761459\nfull avg10=0.22 avg60=0.16 avg300=1.08 total=58464525\n",
                    "aggr 316016073\nsome 0.00 0.03 0.05\nfull 0.00 0.03 0.05\n"],
    "mempressure_full": ["some avg10=0.22 avg60=0.17 avg300=1.11 total=58761459\nfull avg10=0.22 avg60=0.16 avg300=1.08 total=58464525\n"],
    "iopressure": ["some avg10=0.00 avg60=0.00 avg300=0.00 total=0\nfull avg10=0.00 avg60=0.00 avg300=0.00 total=0\n"],
    "pgscan": ["anon 10\npgscan 30\n", "anon 10\nfile 3\n"],
    "iostat": ["8:0 rbytes=1 wbytes=2 rios=3 wios=4 dbytes=5 dios=6\n"],
    "meminfo": ["MemTotal:       16000000 kB\nMemFree:         1000000 kB\n"],
    "swappiness": ["60\n"],
    "pids": ["12\n13\n"],
}
MALFORMED = ["\n", "abc\n", "12abc\n", " 7\n", "-5\n", "99999999999999999999\n", "max\n", "1\n2\n", "some\n", "some avg10=1.0\nfull\n",
             "some avg10 avg60 avg300 total\nfull a b c d\n", "populated\n", "populated 2\n", "x", "a b\nc\n", "pgscan\n",
             "some avg10=0.1 avg60=0.1 avg300=0.1 total=5\n", "aggr 1\nsome 0 0\n", "aggr 1\nsome 0 0 0\nfull\n"]


def psi(a=0.5, b=0.3, c=0.1, t=1000):
    return "some avg10=%.2f avg60=%.2f avg300=%.2f total=%d\nfull avg10=%.2f avg60=%.2f avg300=%.2f total=%d\n" % (a, b, c, t, a / 2, b / 2, c / 2, t // 2)


def cg(name, pids, mem, children=(), pressure=50.0):
    files = {
        "cgroup.controllers": "cpu io memory pids\n",
        "cgroup.procs": "".join("%d\n" % p for p in pids),
        "cgroup.events": "populated %d\nfrozen 0\n" % (1 if pids or children else 0),
        "cgroup.stat": "nr_descendants %d\nnr_dying_descendants 30\n" % len(children),
        "cgroup.kill": "", "cgroup.freeze": "0\n",
        "memory.current": "%d\n" % mem, "memory.min": "0\n", "memory.low": "0\n", "memory.high": "max\n", "memory.max": "max\n",
        "memory.swap.current": "%d\n" % (mem // 4), "memory.swap.max": "max\n", "memory.oom.group": "0\n",
        "memory.stat": "anon %d\nfile %d\nactive_file 1\ninactive_file 1\npgscan 1000\npgsteal 100\n" % (mem // 2, mem // 2),
        "memory.pressure": psi(pressure, pressure, pressure / 2, 100000), "io.pressure": psi(pressure, pressure, 1.0, 50000),
        "io.stat": "8:0 rbytes=1000 wbytes=2000 rios=30 wios=40 dbytes=0 dios=0\n",
        "pids.current": "%d\n" % len(pids), "memory.reclaim": "", "memory.high.tmp": "max 0\n",
    }
    return {"name": name, "files": files, "children": list(children)}


def base_tree():
    wl = [cg("a", [], 900 << 20, [cg("x", [1000, 1001], 600 << 20), cg("y", [1010], 300 << 20)]),
          cg("b", [1100, 1101, 1102], 500 << 20),
          cg("c", [1200], 50 << 20)]
    sysd = [cg("sshd", [500], 10 << 20, pressure=1.0), cg("db", [510, 511], 800 << 20, pressure=1.0)]
    return cg("", [], 2500 << 20, [cg("workload", [], 1450 << 20, wl), cg("system", [], 810 << 20, sysd, pressure=1.0)])


def det(name, **args):
    return {"name": name, "args": {k: str(v) for k, v in args.items()}}


def config(kill_plugin="kill_by_memory_size_or_growth", recursive=False, parent_unwatched=False):
    kargs = {"cgroup": "workload/*", "recursive": "true" if recursive else "false"}
    if kill_plugin == "kill_by_pressure":
        kargs["resource"] = "memory"
    if parent_unwatched:
        # no plugin names `workload` itself: its context is created only when a child asks for its memory protection (the
        # parent is opened by path at that moment, after the child was opened)
        return {"rulesets": [
            {"name": "pressure",
             "detectors": [["usage", det("memory_above", cgroup="workload/*", threshold="100M", duration=0)]],
             "actions": [det(kill_plugin, **kargs)], "post_action_delay": "0"},
            {"name": "swap", "detectors": [["swap low", det("swap_free", threshold_pct=99)]],
             "actions": [det("kill_by_swap_usage", cgroup="workload/*", threshold="1%", biased_swap_kill="true")],
             "post_action_delay": "0"}],
            "prekill_hooks": []}
    return {"rulesets": [
        {"name": "overview", "silence-logs": "engine",
         "detectors": [["always", det("dump_cgroup_overview", cgroup="workload/*,system")]],
         "actions": [det("continue")]},
        {"name": "pressure",
         "detectors": [["mem pressure", det("pressure_above", cgroup="workload", resource="memory", threshold=10, duration=0),
                        det("memory_reclaim", cgroup="workload", duration=30)],
                       ["rising", det("pressure_rising_beyond", cgroup="workload/*", resource="io", threshold=10, duration=0, fast_fall_ratio=0)],
                       ["usage", det("memory_above", cgroup="workload/*", threshold="100M", duration=0)],
                       ["swap", det("swap_free", threshold_pct=90)],
                       ["exists", det("exists", cgroup="workload/a,workload/zz")],
                       ["dying", det("nr_dying_descendants", cgroup="workload", count=5, lte="false")]],
         "actions": [det(kill_plugin, **kargs)], "post_action_delay": "0"},
        {"name": "swap", "detectors": [["swap low", det("swap_free", threshold_pct=99)]],
         "actions": [det("kill_by_swap_usage", cgroup="workload/*", threshold="1%",
                         biased_swap_kill="true" if recursive else "false")], "post_action_delay": "0"},
        {"name": "senpai", "detectors": [["e", det("exists", cgroup="workload")]],
         "actions": [det("senpai", cgroup="workload/c", limit_min_bytes=1 << 20, interval=1,
                         immediate_backoff="true" if recursive else "false")]},
        # a ruleset-level cgroup (one instance per matching cgroup, created / discarded as they appear / vanish) and a
        # dry systemd_restart behind a memory.stat-based detector
        {"name": "percg", "cgroup": "workload/*",
         "detectors": [["anon", det("memory_above", threshold_anon="1M", duration=0)]],
         "actions": [det("systemd_restart", service="x.service", dry="true")], "post_action_delay": "0"},
    ] + ([] if not recursive else []),
        # prekill hooks are fired for every victim of the kill actions above
        # (recursive variants: a hook that is still running at its first poll, so the kill is deferred to the next tick and
        #  carried out by resumeFromPrekillHook - with the tick's faults in place)
        "prekill_hooks": [det("verif_slow_prekill_hook" if recursive else "dummy_prekill_hook", cgroup="workload/*")]}


PROC = {
    "meminfo": "MemTotal:       16000000 kB\nMemFree:         1000000 kB\nSwapTotal:       8000000 kB\nSwapFree:        100000 kB\n",
    "vmstat": "pgpgin 100\npswpin 5\npswpout 7\npgscan_kswapd 9\n",
    "swaps": "Filename\t\t\t\tType\t\tSize\t\tUsed\t\tPriority\n/dev/sda2                               partition\t8000000\t\t7900000\t\t-2\n",
    "swappiness": "60\n",
}
KILLERS = ["kill_by_memory_size_or_growth", "kill_by_swap_usage", "kill_by_pressure", "kill_by_io_cost", "kill_by_pg_scan"]
CONTROL_FILES = sorted(cg("x", [1], 1)["files"].keys())


def tick_scenario(kp, recursive=False, faults=(), ticks=3, proc=None, dtype=False, tree=None, parent_unwatched=False):
    return {"kind": "tick", "config": config(kp, recursive, parent_unwatched), "tree": tree or base_tree(), "proc": dict(proc or PROC), "ticks": ticks,
            "targets_pid_lo": 1000, "targets_pid_hi": 1999, "faults": list(faults), "dtype_unknown": dtype}


_baseline_opens = {}


def baseline_opens(kp):
    if kp not in _baseline_opens:
        exe = core.build_harness(HARNESS, FLAVOUR)
        sc = tick_scenario(kp)
        sc["id"] = "baseline"
        tr = core.run_harness(exe, [sc], timeout=TIMEOUT)["baseline"]
        _baseline_opens[kp] = tr.get("opens", [200, 200, 200])
    return _baseline_opens[kp]


# ---- accessor layer (kind "ctx"): every CgroupContext accessor x every control file x every fault state ----------------

CTX_FILES = ["memory.current", "memory.swap.current", "memory.swap.max", "memory.low", "memory.min", "memory.high",
             "memory.high.tmp", "memory.max", "memory.stat", "cgroup.stat", "cgroup.events", "memory.oom.group",
             "memory.pressure", "io.pressure", "io.stat"]


def ctx_cgroup(mem, low="0", mn="0", swapmax="max"):
    return {"cgroup.controllers": "cpu io memory pids\n", "memory.current": "%d\n" % mem, "memory.swap.current": "%d\n" % (mem // 4),
            "memory.swap.max": swapmax + "\n", "memory.low": low + "\n", "memory.min": mn + "\n", "memory.high": "max\n",
            "memory.high.tmp": "max 0\n", "memory.max": "max\n",
            "memory.stat": "anon %d\nfile %d\nshmem 0\npgscan 1000\n" % (mem // 2, mem // 2),
            "cgroup.stat": "nr_descendants 0\nnr_dying_descendants 3\n", "cgroup.events": "populated 1\nfrozen 0\n",
            "memory.oom.group": "0\n", "memory.pressure": psi(), "io.pressure": psi(),
            "io.stat": "8:0 rbytes=1000 wbytes=2000 rios=30 wios=40 dbytes=0 dios=0\n"}


def ctx_world(protected):
    """root / {A / {B / {C}, S}, T}; with `protected` the memory.low / memory.min values make every protection sum non-zero"""
    lo = "4096" if protected else "0"
    return {"A": ctx_cgroup(1 << 30, low=lo), "A/B": ctx_cgroup(1 << 29, low=lo, swapmax="1073741824"),
            "A/S": ctx_cgroup(1 << 28, mn=lo), "A/B/C": ctx_cgroup(1 << 27, low=lo, swapmax="0" if not protected else "4096"),
            "T": ctx_cgroup(1 << 26, low=lo)}


def gen_ctx(rng, tier):
    for protected in (True, False):
        w = ctx_world(protected)
        for target in ("A/B/C", "A/B", "A"):
            yield {"kind": "ctx", "cgroups": w, "target": target, "faults": [], "ticks": 2}
            # every single fault on the target, each ancestor and each sibling the accessors sum over
            reach = [c for c in w if c == target or target.startswith(c + "/") or
                     any(c.rsplit("/", 1)[0] == a.rsplit("/", 1)[0] and "/" in c and "/" in a or ("/" not in c and "/" not in a)
                         for a in [target] + [target.rsplit("/", k)[0] for k in range(1, target.count("/") + 1)])]
            for c in sorted(set(reach)):
                for f in CTX_FILES:
                    for st in ("absent", "empty", "denied", "isdir"):
                        yield {"kind": "ctx", "cgroups": w, "target": target, "ticks": 2, "faults": [{"cg": c, "file": f, "state": st}]}
            # optional keys of memory.stat
            for keep in ("anon 1\nfile 2\nshmem 3\n", "pgscan 7\n", "file 2\npgscan 7\n", "anon 1\npgscan 7\nshmem 0\n"):
                yield {"kind": "ctx", "cgroups": w, "target": target, "ticks": 2,
                       "faults": [{"cg": target, "file": "memory.stat", "state": "content", "content": keep}]}
    n = {"quick": 300, "thorough": 8000, "search": 1500}[tier]
    for _ in range(n):
        w = ctx_world(rng.random() < 0.6)
        target = rng.choice(["A/B/C", "A/B", "A/B", "A"])
        fs, seen = [], set()
        for _ in range(rng.randint(2, 6)):
            c, f = rng.choice(sorted(w)), rng.choice(CTX_FILES)
            if (c, f) in seen:
                continue
            seen.add((c, f))
            fs.append({"cg": c, "file": f, "state": rng.choice(["absent", "empty", "denied", "isdir"])})
        yield {"kind": "ctx", "cgroups": w, "target": target, "ticks": 2, "faults": fs}


def gen(rng, tier):
    yield from gen_ctx(rng, tier)
    # ---- reader level (exhaustive matrix) ----
    for r, good in READERS.items():
        for st in ("absent", "empty", "denied", "isdir"):
            yield {"kind": "reader", "reader": r, "state": st}
        for c in good:
            yield {"kind": "reader", "reader": r, "state": "content", "content": c, "wf": True}
        for c in MALFORMED:
            yield {"kind": "reader", "reader": r, "state": "content", "content": c}
    for dirs, files in ((["a", "b"], ["f"]), ([], []), ([".h", "c"], [".hf", "g"]), (["only"], [])):
        yield {"kind": "dtype", "dirs": dirs, "files": files}
    # ---- tick level ----
    nk = {"quick": 5, "thorough": 10 ** 9, "search": 30}[tier]
    cgs = ["workload/a/x", "workload/b", "workload", "system/db", "workload/c", ""]
    for kp in KILLERS:
        yield tick_scenario(kp)
        yield tick_scenario(kp, recursive=True, dtype=True)
    for i, f in enumerate(CONTROL_FILES):
        for op in ("absent", "empty", "deny"):
            kp = KILLERS[(i + len(op)) % len(KILLERS)]
            sel = cgs if tier != "quick" else [cgs[(i + len(op)) % 2], cgs[2 + (i % 4)]]
            for c in sel:
                p = (c + "/" if c else "") + f
                yield tick_scenario(kp, recursive=(i % 2 == 0), faults=[{"tick": 1, "at_open": -1, "op": op, "path": p}])
    # multi faults
    for _ in range({"quick": 40, "thorough": 600, "search": 150}[tier]):
        fs = []
        for _ in range(rng.randint(2, 5)):
            c = rng.choice(cgs)
            fs.append({"tick": rng.randint(0, 2), "at_open": -1, "op": rng.choice(["absent", "empty", "deny"]),
                       "path": (c + "/" if c else "") + rng.choice(CONTROL_FILES)})
        yield tick_scenario(rng.choice(KILLERS), recursive=rng.random() < 0.5, faults=fs, dtype=rng.random() < 0.2)
    # optional keys
    for drop in ("pswpout", "pgpgin"):
        pr = dict(PROC)
        pr["vmstat"] = "".join(l + "\n" for l in PROC["vmstat"].splitlines() if not l.startswith(drop))
        yield tick_scenario("kill_by_pg_scan", proc=pr)
    for k in ("meminfo", "vmstat", "swaps", "swappiness"):
        pr = dict(PROC)
        pr[k] = None
        yield tick_scenario("kill_by_swap_usage", proc=pr)
        pr2 = dict(PROC)
        pr2[k] = ""
        yield tick_scenario("kill_by_swap_usage", proc=pr2)
    pr = dict(PROC)
    pr["meminfo"] = "MemTotal:       16000000 kB\n"
    yield tick_scenario("kill_by_swap_usage", proc=pr)
    # /proc files that differ from tick to tick: every sequence of states of /proc/vmstat (full, without pswpout, other keys
    # only, empty, absent) over three ticks, and the same for meminfo / swaps on a random sample
    vm = {"full": PROC["vmstat"], "nopswpout": "pgpgin 100\npswpin 5\npgscan_kswapd 9\n", "other": "nr_free_pages 5\n", "empty": "", "absent": None}
    for seq in itertools.product(sorted(vm), repeat=3):
        sc = tick_scenario("kill_by_swap_usage" if len(set(seq)) % 2 else "kill_by_pressure")
        sc["proc_ticks"] = [{"vmstat": vm[x]} for x in seq]
        yield sc
    alt = {"meminfo": [PROC["meminfo"], "MemTotal:       16000000 kB\n", "", None],
           "swaps": [PROC["swaps"], "Filename Type Size Used Priority\n", "", None],
           "swappiness": [PROC["swappiness"], "", None]}
    for _ in range({"quick": 30, "thorough": 400, "search": 120}[tier]):
        sc = tick_scenario(rng.choice(KILLERS))
        sc["proc_ticks"] = [{k: rng.choice(v) for k, v in alt.items() if rng.random() < 0.6} for _ in range(3)]
        yield sc
    for kp in KILLERS:
        t = base_tree()

        def strip(n):
            n["files"]["memory.stat"] = "anon 5\nfile 5\n"
            for ch in n["children"]:
                strip(ch)
        strip(t)
        yield tick_scenario(kp, tree=t, recursive=True)
    # an entry vanishes between readdir() and the next access to it (fstatat without d_type, openat with)
    for ki, kp in enumerate(KILLERS):
        for path in ("workload/a", "workload/b", "workload/a/x", "workload/c", "system/db", "workload", "workload/a/memory.current"):
            for t in ((0, 1, 2) if tier != "quick" else ((ki + len(path)) % 3,)):
                for dt in (True, False):
                    yield tick_scenario(kp, recursive=True, dtype=dt, faults=[{"tick": t, "at_open": -1, "op": "vanish_on_readdir", "path": path}])
    # the top-ranked victim (killed as a whole, it has children) is re-created at EVERY open index of the kill tick:
    # the kill must not descend from the removed incarnation into the new cgroup of the same name
    for kp in KILLERS[:2] if tier == "quick" else KILLERS:
        opens = baseline_opens(kp)
        for t in ((0, 1) if tier == "quick" else (0, 1, 2)):
            for k in range(opens[t] if t < len(opens) else 0):
                yield tick_scenario(kp, recursive=False, faults=[{"tick": t, "at_open": k, "op": "recreate", "path": "workload/a"}])
    # the parent of the watched cgroups is named by no plugin (its context is made on demand, by path): the whole subtree goes
    # away at open index k
    for kp in KILLERS[:2] if tier == "quick" else KILLERS:
        sc0 = tick_scenario(kp, parent_unwatched=True)
        sc0["id"] = "baseline-pu"
        opens_pu = _baseline_opens.get(("pu", kp))
        if opens_pu is None:
            exe = core.build_harness(HARNESS, FLAVOUR)
            opens_pu = core.run_harness(exe, [sc0], timeout=TIMEOUT)["baseline-pu"].get("opens", [60, 60, 60])
            _baseline_opens[("pu", kp)] = opens_pu
        for t, n in enumerate(opens_pu[:2 if tier == "quick" else 3]):
            for k in range(n):
                for op in ("rm", "recreate"):
                    yield tick_scenario(kp, parent_unwatched=True, faults=[{"tick": t, "at_open": k, "op": op, "path": "workload"}])
    # removal / re-creation at open index k
    for kp in KILLERS:
        opens = baseline_opens(kp)
        for t, n in enumerate(opens[:3]):
            ks = list(range(n))
            if len(ks) > nk:
                ks = sorted(rng.sample(ks, nk))
            for k in ks:
                for op in ("rm", "recreate"):
                    for path in (("workload/b", "workload/a") if tier == "quick" and k % 2 else ("workload/a", "workload/b", "workload/a/x", "workload")):
                        if tier == "quick" and rng.random() < 0.5:
                            continue
                        yield tick_scenario(kp, recursive=(k % 2 == 0), faults=[{"tick": t, "at_open": k, "op": op, "path": path}])


def nontrivial(s, t, v):
    if s["kind"] == "reader":
        return s["state"] != "content" or not s.get("wf")
    if s["kind"] == "tick":
        return bool(s["faults"]) or s["dtype_unknown"]
    if s["kind"] == "ctx":
        return bool(s["faults"])
    return True


def bucket(s, t, v):
    b = [s["kind"]]
    if s["kind"] == "ctx":
        b.append("ctx:target-depth=%d" % (s["target"].count("/") + 1))
        for f in s["faults"]:
            b.append("ctx-fault:" + f["state"])
        for row in t.get("ticks", []):
            for k, c in row.items():
                if c == "unavailable":
                    b.append("ctx-unavailable:" + k)
    if s["kind"] == "reader":
        b.append("reader:%s" % t.get("r", t.get("outcome")))
    if s["kind"] == "tick":
        b.append("tick:%s" % t.get("r", t.get("outcome")))
        b.append("tick:kills=%d" % min(len(t.get("kills", [])), 3))
        for f in s["faults"]:
            b.append("fault:" + f["op"])
    return b


def classify(s, t, v):
    if s["kind"] == "reader":
        return "reader:%s:%s" % (s["reader"], s["state"])
    if s["kind"] == "ctx":
        vi = (v.get("violated") or ["accessor-model-differs"])[0]
        return "ctx:" + vi
    if s["kind"] == "tick":
        what = t.get("what") or t.get("outcome", "")
        ops = "+".join(sorted({f["op"] for f in s["faults"]})) or ("dtype" if s["dtype_unknown"] else "nofault")
        return "tick:%s:%s" % (ops, what)
    return v.get("class") or "dtype"


def shrink_candidates(s):
    if s["kind"] == "ctx":
        for i in range(len(s["faults"])):
            yield dict(s, faults=s["faults"][:i] + s["faults"][i + 1:])
        if s.get("ticks", 2) > 1:
            yield dict(s, ticks=1)
    if s["kind"] == "tick":
        for i in range(len(s["faults"])):
            yield dict(s, faults=s["faults"][:i] + s["faults"][i + 1:])
        if s["ticks"] > 1:
            yield dict(s, ticks=s["ticks"] - 1)

"""C17 - kill accounting (engine h_kill, shared kill model)."""
from . import _kill
from ._kill import ENGINE, HARNESS, FLAVOUR, ASSUMPTIONS, TRUSTED, classify, bucket, shrink_candidates, extra_coverage  # noqa: F401

PROP = "C17"
RULE = ("the C01 scenario space with pre-existing counter xattrs (0, 1, 7, 41, 1000; separate stream: non-integer values), "
        "partial kill failures, 0 / 1 / > 20 processes, nested descendants, repeated kills of the same cgroup across "
        "ticks, silence-logs on/off, dry runs, always_continue. non-trivial = at least one wet attempt with a "
        "pre-existing counter or a partial failure")


def gen(rng, tier):
    return _kill.gen(rng, tier, PROP, [("base", 85), ("nonint", 15)])


def nontrivial(s, t, v):
    evs = list(_kill.all_events(t))
    sx = [e for e in evs if e["ev"] == "setxattr"]
    if not sx:
        return False
    return any(e.get("old") not in (None, "") for e in sx) or any(e["ev"] == "kill" and e["rc"] != 0 for e in evs)

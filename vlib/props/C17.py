"""C17 - kill accounting (engine h_kill, shared kill model)."""
from . import _kill
from ._kill import ENGINE, HARNESS, FLAVOUR, ASSUMPTIONS, TRUSTED, classify, bucket, shrink_candidates, extra_coverage  # noqa: F401

PROP = "C17"
RULE = ("the C01 scenario space with pre-existing counter xattrs (0, 1, 7, 41, 1000; separate stream: non-integer values), "
        "partial kill failures, 0 / 1 / > 20 processes, nested descendants, repeated kills of the same cgroup across "
        "ticks, silence-logs on/off, dry runs, always_continue. non-trivial = at least one wet attempt with a "
        "pre-existing counter or a partial failure")


def gen(rng, tier):
    return _kill.gen(rng, tier, PROP, [("base", 72), ("nonint", 12), ("stale", 6), ("zero", 10)])


def nontrivial(s, t, v):
    evs = list(_kill.all_events(t))
    sx = [e for e in evs if e["ev"] == "setxattr"]
    if not sx:
        return False
    return any(e.get("old") not in (None, "") for e in sx) or any(e["ev"] == "kill" and e["rc"] != 0 for e in evs)


# ---- "ASYNC_PAUSED only while waiting for a prekill hook": decided on the kill plugins with hooks configured ---------------
#
# h_kill has no prekill hooks.  The return-value clause for the waiting case is evaluated on the C07 engine (h_hook / drv_hook,
# scripted hooks in the real registry, every combination with always_continue / dry / kernelkill): run() answers ASYNC_PAUSED
# exactly when it leaves an invocation outstanding.  Only that clause counts here; the hook clauses proper are C07's.

def _more_always_continue(rng, s):
    # always_continue is the interesting argument for the return value: make it frequent
    if rng.random() < 0.5:
        s["cfg"]["args"]["always_continue"] = "true"


def run(tier, seed, replay=None):
    import sys
    from . import _hookpass

    def cov(res):
        return {"hookret_pass_async_returns": sum(1 for s, t, v in res for r in t.get("runs", []) for tk in r.get("ticks", [])
                                                  if tk.get("ret") == "ASYNC_PAUSED"),
                "hookret_pass_always_continue": sum(1 for s, t, v in res if s["cfg"]["args"].get("always_continue") == "true")}
    return _hookpass.run(sys.modules[__name__], tier, seed, replay, "return_async_iff_hook_outstanding", "hookret",
                         "return-value pass (kill plugins with scripted prekill hooks, h_hook): the C07 scenario space with "
                         "always_continue set in half of the scenarios; clause: run() returns ASYNC_PAUSED exactly when it "
                         "leaves a hook invocation outstanding", tweak=_more_always_continue, extra_cov=cov)

"""C11 - ruleset-level cgroup: one independent, persistent instance per matching cgroup.

Model lean/OomdModel/RsCgroup.lean, theorems lean/OomdProps/C11.lean, driver lean/Driver/Rscgroup.lean,
harness harness/h_rscgroup.cpp (real ConfigCompiler + Engine + Ruleset over a scratch cgroup tree).

A scenario is: 1-3 rulesets of scripted plugins (at least one with a ruleset-level `cgroup` pattern, with or
without `xattr_filter`), and 3-10 ticks; every tick lists the complete scratch tree (which directories exist,
which carry the xattr, which cannot be opened, for which fgetxattr fails, which were removed and re-created
since the previous tick) and the per-(cgroup, plugin) return values / clock advances.  `m` of a tree entry
is, per ruleset, how many times glob(3) yields that entry for the ruleset's pattern (computed here by brace
expansion + per-component fnmatch; exactness of the real glob is C16's subject).
"""
import fnmatch
import itertools

PROP = "C11"
ENGINE = "rscgroup"
HARNESS = "h_rscgroup"
FLAVOUR = "asan"
S = 1000000000
XATTR = "user.oomd_x"
EXHAUSTIVE = {"quick": False, "thorough": False}
ASSUMPTIONS = [
    "plugins are scripted: a plugin's behaviour in one run() is (return value, clock advance, optional pause_actions call "
    "made immediately before returning STOP - the BaseKillPlugin::run protocol); init() of a copy always succeeds",
    "steady_clock is the harness's virtual CLOCK_MONOTONIC (non-decreasing, starts at 1000 s)",
    "the cgroup fs is a scratch directory tree of ordinary directories (user.* xattr for xattr_filter); an un-openable "
    "cgroup is open(2) failing with EACCES, an unreadable attribute is fgetxattr failing with EIO (interposed)",
    "which paths a pattern resolves to is taken from the scenario generator (brace expansion + fnmatch per component); "
    "the order in which glob returns them is read off the implementation trace",
]
TRUSTED = ["scripted plugins, object serial numbers, virtual clock, open/fgetxattr interposition, fork-per-scenario in harness/h_rscgroup.cpp",
           "vlib/props/C11.py pattern matcher (multiplicity of a path in the glob result)"]
RULE = ("1-3 rulesets (>= 1 with a ruleset cgroup pattern out of 8 pattern shapes incl. brace alternatives that list a path twice; "
        "xattr_filter on/off; actions with and without their own cgroup argument) x 3-10 ticks over a scratch tree of up to 9 "
        "entries that are created / removed / re-created / (un)tagged / made un-openable between ticks (any number at once), "
        "scripted return values incl. STOP with own delay and ASYNC_PAUSED per (cgroup, plugin). non-trivial = some instance "
        "was discarded while another one persisted, and some path re-appeared after an absence")

# "s/w\\x2dq" (a systemd-escaped unit name: it contains a backslash) and "s/w[1]": names are names - the default `cgroup` argument
# an instance hands to its actions must name that very cgroup, whatever characters it contains
UNIVERSE = ["s", "t", "s/wa", "s/wb", "s/wc", "s/xd", "s/wfile", "s/wa/sub", "t/wa", "s/w\\x2dq", "s/w[1]{2}", "s/wb "]
KIND = {"s/wfile": "file"}
PATTERNS = ["s/*", "s/w*", "s/w?", "*/wa", "s/wa", "s/{wa,w*}", "s/{wa,wb}", "*", "s/{w*,*a}"]


def expand_braces(p):
    i = p.find("{")
    if i < 0:
        return [p]
    j = p.find("}", i)
    out = []
    for alt in p[i + 1:j].split(","):
        out += expand_braces(p[:i] + alt + p[j + 1:])
    return out


def mult(pattern, path):
    """how many times glob(pattern, GLOB_BRACE) lists path"""
    n = 0
    pc = path.split("/")
    for alt in expand_braces(pattern):
        ac = alt.split("/")
        if len(ac) == len(pc) and all(fnmatch.fnmatchcase(a, b) for a, b in zip(pc, ac)):
            n += 1
    return n


def mk_rulesets(rng):
    inst = 0
    rss = []
    shape = rng.choice(["c", "c", "c", "pc", "cp", "cc", "pcc"])
    for rid, kind in enumerate(shape):
        groups = []
        for gid in range(rng.randint(1, 2)):
            dets = []
            for _ in range(rng.randint(1, 2)):
                dets.append(inst)
                inst += 1
            groups.append({"gid": gid + 10 * rid, "dets": dets})
        acts = []
        for _ in range(rng.randint(1, 3)):
            if kind == "c" and rng.random() < 0.25:
                acts.append({"inst": inst, "cgroup": rng.choice(["own/x", "s/wa", "/"])})
            else:
                acts.append(inst)
            inst += 1
        r = {"rid": rid, "groups": groups, "actions": acts,
             "delay": rng.choice(["", "0", "1", "2", "5", "15", "30"]),
             "hook_timeout": rng.choice(["", "0", "3", "5"]),
             "silence": rng.choice(["", "engine", "plugins", "engine,plugins"])}
        if kind == "c":
            r["cgroup"] = rng.choice(PATTERNS)
            r["xattr_filter"] = XATTR if rng.random() < 0.4 else ""
        rss.append(r)
    return rss


def act_id(a):
    return a["inst"] if isinstance(a, dict) else a


def mk_world(rng, prev, rss, calm):
    """next state of the scratch tree: dict path -> {x, open, xerr, re}"""
    cur = {}
    p_flip = 0.08 if calm else 0.3
    for p in UNIVERSE:
        was = p in prev
        if p == "s":
            exists = True
        elif was:
            exists = rng.random() >= p_flip
        else:
            exists = rng.random() < (0.5 if not calm else 0.15)
        if not exists:
            continue
        parent = p.rsplit("/", 1)[0] if "/" in p else None
        if parent is not None and parent not in cur:
            continue
        old = prev.get(p, {})
        x = old.get("x", rng.random() < 0.6)
        if rng.random() < 0.2:
            x = not x
        # the attribute's value does not matter, only its presence: a quarter of the tags are written with an empty value
        # (what `setfattr -n user.x <dir>` writes), and the value may change between ticks while the tag stays
        e = {"x": x, "open": rng.random() >= 0.06, "xerr": rng.random() < 0.05, "re": False,
             "xv": rng.choice(["", "1", "1", "on"])}
        if was and KIND.get(p, "dir") == "dir" and rng.random() < 0.06 and not any(q.startswith(p + "/") for q in prev):
            e["re"] = True
        cur[p] = e
    return cur


def world_entries(cur, rss):
    out = []
    for p in UNIVERSE:
        if p in cur:
            e = cur[p]
            out.append({"path": p, "kind": KIND.get(p, "dir"), "x": e["x"], "xv": e.get("xv", "1"), "open": e["open"], "xerr": e["xerr"], "re": e["re"],
                        "m": [mult(r["cgroup"], p) if r.get("cgroup") else 0 for r in rss]})
    return out


def mk_calls(rng, rss, cgs):
    calls = {}
    for ri, r in enumerate(rss):
        if r.get("cgroup"):
            keys = [c["path"] for c in cgs if c["m"][ri] > 0 and c["kind"] == "dir"]
        else:
            keys = [""]
        for key in keys:
            d = calls.setdefault(key, {})
            quiet = rng.random() < 0.2
            for g in r["groups"]:
                for det in g["dets"]:
                    x = rng.random()
                    ret = 1 if (quiet or x < 0.2) else (2 if x < 0.25 else 0)
                    adv = rng.choice([0, 0, 0, S, S // 4])
                    if ret or adv:
                        d[str(det)] = [ret, adv, -1]
            for a in r["actions"]:
                x = rng.random()
                ret = 2 if x < 0.3 else (1 if x < 0.65 else 0)
                adv = rng.choice([0, 0, S, 2 * S, S // 2])
                pause = -1
                if ret == 1 and rng.random() < 0.4:
                    pause = rng.choice([0, 1, 3, 7, 30])
                if ret or adv:
                    d[str(act_id(a))] = [ret, adv, pause]
    return {k: v for k, v in calls.items() if v}


def mk_scenario(rng, calm=None, nticks=None):
    rss = mk_rulesets(rng)
    ticks = []
    prev = {}
    if calm is None:
        calm = rng.random() < 0.3
    if nticks is None:
        nticks = rng.randint(3, 10)
    for _ in range(nticks):
        cur = mk_world(rng, prev, rss, calm)
        cgs = world_entries(cur, rss)
        ticks.append({"gap": rng.choice([S, 5 * S, 5 * S, 5 * S, 2 * S, 10 * S, 15 * S, 0, 3 * S + S // 2]),
                      "cgs": cgs, "calls": mk_calls(rng, rss, cgs)})
        prev = cur
    return {"prop": PROP, "rulesets": rss, "ticks": ticks}


def gen(rng, tier):
    n = {"quick": 3000, "thorough": 30000, "search": 8000}[tier]
    for _ in range(n):
        yield mk_scenario(rng)
    if tier == "thorough":
        # every history of presence of two paths over 4 ticks (present / absent / untagged) with a filter
        rs = [{"rid": 0, "groups": [{"gid": 0, "dets": [0]}], "actions": [1, 2], "delay": "7", "hook_timeout": "",
               "silence": "", "cgroup": "s/w*", "xattr_filter": XATTR}]
        states = ["present", "absent", "untagged"]
        for hist in itertools.product(itertools.product(states, repeat=2), repeat=4):
            for script in ({"1": [2, S, -1]}, {"1": [1, 0, 12]}, {}):
                ticks = []
                for st in hist:
                    cgs = [{"path": "s", "kind": "dir", "x": False, "open": True, "xerr": False, "re": False, "m": [0]}]
                    for p, s1 in zip(("s/wa", "s/wb"), st):
                        if s1 != "absent":
                            cgs.append({"path": p, "kind": "dir", "x": s1 == "present", "open": True, "xerr": False, "re": False, "m": [1]})
                    ticks.append({"gap": 5 * S, "cgs": cgs, "calls": {"s/wa": script, "s/wb": script}})
                yield {"prop": PROP, "rulesets": rs, "ticks": ticks}


def matching_sets(s):
    """per tick, per ruleset: the set of currently matching paths (the property's notion)"""
    out = []
    for t in s["ticks"]:
        row = []
        for ri, r in enumerate(s["rulesets"]):
            if not r.get("cgroup"):
                row.append(set())
                continue
            flt = bool(r.get("xattr_filter"))
            row.append({c["path"] for c in t["cgs"] if c["kind"] == "dir" and c["m"][ri] > 0 and c["open"]
                        and (not flt or (c["x"] and not c["xerr"]))})
        out.append(row)
    return out


def features(s):
    ms = matching_sets(s)
    f = {"discard": 0, "multi_discard": 0, "recreate": 0, "persist_while_discard": 0, "max_inst": 0}
    for ri in range(len(s["rulesets"])):
        seen_gone = set()
        for k in range(len(ms)):
            cur = ms[k][ri]
            f["max_inst"] = max(f["max_inst"], len(cur))
            if k:
                gone = ms[k - 1][ri] - cur
                if gone:
                    f["discard"] += 1
                    if len(gone) >= 2:
                        f["multi_discard"] += 1
                    if ms[k - 1][ri] & cur:
                        f["persist_while_discard"] += 1
                seen_gone |= gone
                if (cur - ms[k - 1][ri]) & seen_gone:
                    f["recreate"] += 1
    return f


def nontrivial(s, t, v):
    f = features(s)
    return f["persist_while_discard"] > 0 and f["recreate"] > 0


def bucket(s, t, v):
    f = features(s)
    b = ["rulesets=%d" % len(s["rulesets"]), "max_inst=%d" % min(f["max_inst"], 4)]
    for k in ("discard", "multi_discard", "recreate", "persist_while_discard"):
        if f[k]:
            b.append(k)
    for r in s["rulesets"]:
        if r.get("cgroup"):
            b.append("pattern=" + r["cgroup"])
            if r.get("xattr_filter"):
                b.append("xattr_filter")
    if any(c["m"] and max(c["m"]) > 1 for tk in s["ticks"] for c in tk["cgs"]):
        b.append("dup_match")
    if any(not c["open"] for tk in s["ticks"] for c in tk["cgs"]):
        b.append("unopenable")
    if any(c["re"] for tk in s["ticks"] for c in tk["cgs"]):
        b.append("recreated_between_ticks")
    na = sum(1 for tk in t.get("ticks", []) for e in tk.get("run", []) if e and e[0] == "a")
    b.append("acts=%s" % ("0" if na == 0 else "1-5" if na <= 5 else ">5"))
    return b


def shrink_candidates(s):
    tk = s["ticks"]
    for i in range(len(tk)):
        yield dict(s, ticks=tk[:i] + tk[i + 1:])
    if len(s["rulesets"]) > 1:
        for i in range(len(s["rulesets"])):
            rss = s["rulesets"][:i] + s["rulesets"][i + 1:]
            if not any(r.get("cgroup") for r in rss):
                continue
            nt = []
            for t in tk:
                nt.append(dict(t, cgs=[dict(c, m=c["m"][:i] + c["m"][i + 1:]) for c in t["cgs"]]))
            yield dict(s, rulesets=rss, ticks=nt)
    for i in range(len(tk)):
        if tk[i]["calls"]:
            yield dict(s, ticks=tk[:i] + [dict(tk[i], calls={})] + tk[i + 1:])
    # remove one tree entry from every tick
    for p in reversed(UNIVERSE):
        if p == "s" or not any(c["path"] == p for t in tk for c in t["cgs"]):
            continue
        if any(c["path"].startswith(p + "/") for t in tk for c in t["cgs"]):
            continue
        yield dict(s, ticks=[dict(t, cgs=[c for c in t["cgs"] if c["path"] != p]) for t in tk])
    for i in range(len(tk)):
        for cg in list(tk[i]["calls"]):
            c = dict(tk[i]["calls"])
            del c[cg]
            yield dict(s, ticks=tk[:i] + [dict(tk[i], calls=c)] + tk[i + 1:])


def extra_coverage(results):
    tot = {"discard": 0, "multi_discard": 0, "recreate": 0, "persist_while_discard": 0}
    for (s, t, v) in results:
        f = features(s)
        for k in tot:
            tot[k] += 1 if f[k] else 0
    return {"histories_with": tot}


# ---- ruleset-cgroup rulesets under drop-ins: decided on the drop-in engine -------------------------------------------------------
#
# h_rscgroup has no drop-ins.  A drop-in copy of a ruleset-cgroup base is itself a ruleset with the base's `cgroup` and
# `xattr_filter`: it too is evaluated once per matching cgroup that passes the filter.  Decided on C13's engine (h_dropin) with
# trees in which exactly one cgroup matches and passes (a second one matches the pattern but lacks the attribute); only clause
# C11.dropin_world_once_per_matching_cgroup counts here.

def dropin_scenarios(rng, tier):
    from . import C13
    n = {"quick": 800, "thorough": 10000, "search": 3000}[tier]
    out = 0
    while out < n:
        s = C13.random_history(rng, 10)
        if "tree" not in s:
            continue
        s.pop("twin_tag", None)
        s["prop"] = PROP
        out += 1
        yield s


def run(tier, seed, replay=None):
    import json
    import os
    import random
    import sys
    from vlib import core
    from . import C13
    mod = sys.modules[__name__]

    def want(c):
        return c.startswith("C11.")
    if replay:
        rp = json.load(open(replay))
        if rp.get("pass") == "dropincg":
            viol, _, _ = core.extra_pass(PROP, "dropin", "h_dropin", "asan", [rp["scenario"]], tier, seed, want=want, label="dropincg")
            for c, p in viol:
                print("VIOLATION property=%s replay=%s" % (PROP, p))
            return 1 if viol else 0
        return core.run_check(mod, tier, seed, replay)
    rc = core.run_check(mod, tier, seed, replay)
    esc = tier == "quick" and core.changed_sources() and not os.environ.get("VERIF_NO_ESCALATION")
    scs = list(dropin_scenarios(random.Random(seed * 8111 + 3), "search" if esc else tier))
    viol, cov, res = core.extra_pass(PROP, "dropin", "h_dropin", "asan", scs, tier, seed, want=want,
                                     shrink_candidates=getattr(C13, "shrink_candidates", None), label="dropincg")
    cov["dropincg_pass_filtered_bases"] = sum(1 for s, t, v in res if any(b.get("xattr_filter") for b in s["rulesets"]))
    core.merge_extra_into_evidence(PROP, cov, len(viol),
                                   "drop-in pass (h_dropin): add / re-add / remove histories over ruleset-cgroup bases, half of them "
                                   "with an xattr_filter that one of two matching cgroups passes; clause: base and every drop-in "
                                   "copy run each detector once per matching cgroup that passes the filter")
    for c, p in viol:
        print("VIOLATION property=%s replay=%s" % (PROP, p))
    return 1 if (rc or viol) else 0

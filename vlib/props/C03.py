"""C03 - victim order (engine h_kill, shared kill model)."""
from . import _kill
from ._kill import ENGINE, HARNESS, FLAVOUR, ASSUMPTIONS, TRUSTED, classify, bucket, shrink_candidates, extra_coverage  # noqa: F401

PROP = "C03"
RULE = ("random trees with all combinations of preference xattrs (trusted/user prefer/avoid, both), memory.oom.group, "
        "populated flags (also inconsistent / unreadable), ranking keys drawn from small ranges (many ties), per-cgroup "
        "kill outcomes (all die / all fail / mixed), recursive on/off, rank filters (swap threshold, pgscan rate). "
        "non-trivial = at least two ranked candidates and (a fallback happened or a preference mark / oom.group / "
        "unpopulated cgroup was among the candidates)")


def gen(rng, tier):
    return _kill.gen(rng, tier, PROP, [("base", 90), ("stale", 10)])


def nontrivial(s, t, v):
    evs = list(_kill.all_events(t))
    att = {e["val"] for e in evs if e["ev"] == "setxattr" and e["name"].endswith("kill_uuid")}
    nodes = [n for _, n in _kill.nodes_of(s)]
    if len(nodes) < 2 or not att:
        return False
    special = any(n["sem"]["oom_group"] == 1 or n["sem"]["populated"] == 0 or
                  any(k.endswith(("oomd_prefer", "oomd_avoid")) for k in n["xattrs"]) for n in nodes)
    return len(att) > 1 or special


# ---- the fallback order across a prekill-hook wait: decided on the kill plugins with hooks configured -----------------------
#
# h_kill configures no prekill hook, so the serialise / restore path of the candidate stack (a kill cycle deferred by a hook and
# resumed on a later tick) is not run there.  The order clauses for that path are evaluated on the C07 engine (h_hook, scripted
# hooks): the attempts of one kill cycle, over all its ticks, are in rank order.  Only the C03.* clauses count here.

def run(tier, seed, replay=None):
    import sys
    from . import _hookpass
    return _hookpass.run(sys.modules[__name__], tier, seed, replay, "C03.", "hookorder",
                         "order pass (kill plugins with scripted prekill hooks, h_hook): the C07 scenario space; clause: the "
                         "attempts of one kill cycle, over all the ticks a hook defers it, are in (preference, key) order")

"""C03 - victim order (engine h_kill, shared kill model)."""
from . import _kill
from ._kill import ENGINE, HARNESS, FLAVOUR, ASSUMPTIONS, TRUSTED, classify, bucket, shrink_candidates, extra_coverage  # noqa: F401

PROP = "C03"
RULE = ("random trees with all combinations of preference xattrs (trusted/user prefer/avoid, both), memory.oom.group, "
        "populated flags (also inconsistent / unreadable), ranking keys drawn from small ranges (many ties), per-cgroup "
        "kill outcomes (all die / all fail / mixed), recursive on/off, rank filters (swap threshold, pgscan rate). "
        "non-trivial = at least two ranked candidates and (a fallback happened or a preference mark / oom.group / "
        "unpopulated cgroup was among the candidates)")


def gen(rng, tier):
    return _kill.gen(rng, tier, PROP, [("base", 100)])


def nontrivial(s, t, v):
    evs = list(_kill.all_events(t))
    att = {e["val"] for e in evs if e["ev"] == "setxattr" and e["name"].endswith("kill_uuid")}
    nodes = [n for _, n in _kill.nodes_of(s)]
    if len(nodes) < 2 or not att:
        return False
    special = any(n["sem"]["oom_group"] == 1 or n["sem"]["populated"] == 0 or
                  any(k.endswith(("oomd_prefer", "oomd_avoid")) for k in n["xattrs"]) for n in nodes)
    return len(att) > 1 or special


# ---- the fallback order across a prekill-hook wait: decided on the kill plugins with hooks configured -----------------------
#
# h_kill configures no prekill hook, so the serialise / restore path of the candidate stack (a kill cycle deferred by a hook and
# resumed on a later tick) is not run there.  The order clauses for that path are evaluated on the C07 engine (h_hook, scripted
# hooks): the attempts of one kill cycle, over all its ticks, are in rank order.  Only the C03.* clauses count here.

def hook_scenarios(rng, tier):
    from . import C07
    n = {"quick": 1500, "thorough": 20000, "search": 4000}[tier]
    for _ in range(n):
        s = C07.gen_one(rng, tier)
        s["prop"] = PROP
        yield s


def run(tier, seed, replay=None):
    import json
    import os
    import random
    import sys
    from .. import core
    from . import C07
    mod = sys.modules[__name__]

    def want(c):
        return c.startswith("C03.")
    if replay:
        rp = json.load(open(replay))
        if rp.get("pass") == "hookorder":
            viol, _, _ = core.extra_pass(PROP, "hook", "h_hook", "asan", [rp["scenario"]], tier, seed, want=want, label="hookorder")
            for c, p in viol:
                print("VIOLATION property=%s replay=%s" % (PROP, p))
            return 1 if viol else 0
        return core.run_check(mod, tier, seed, replay)
    rc = core.run_check(mod, tier, seed, replay)
    esc = tier == "quick" and core.changed_sources() and not os.environ.get("VERIF_NO_ESCALATION")
    scs = list(hook_scenarios(random.Random(seed * 6011 + 19), "search" if esc else tier))
    viol, cov, res = core.extra_pass(PROP, "hook", "h_hook", "asan", scs, tier, seed, want=want,
                                     shrink_candidates=C07.shrink_candidates, label="hookorder")
    cov["hookorder_pass_cycles_with_fallback_after_wait"] = sum(1 for s, t, v in res if "fallback_fires" in (v.get("tags") or [])
                                                                and "ticks_waited" in (v.get("tags") or []))
    core.merge_extra_into_evidence(PROP, cov, len(viol),
                                   "order pass (kill plugins with scripted prekill hooks, h_hook): the C07 scenario space; clause: the "
                                   "attempts of one kill cycle, over all the ticks a hook defers it, are in (preference, key) order")
    for c, p in viol:
        print("VIOLATION property=%s replay=%s" % (PROP, p))
    return 1 if (rc or viol) else 0

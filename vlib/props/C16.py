"""C16 - cgroup path algebra and wildcard / pattern matching (engine h_path)."""
import itertools

PROP = "C16"
ENGINE = "path"
HARNESS = "h_path"
FLAVOUR = "asan"
ALPHA = "ab/*?."
RULE = ("strings over the alphabet {a,b,/,*,?,.}: exhaustive up to a length bound (quick: 4 for single paths, 3+3 for "
        "pairs; thorough: 6 and 4+4) plus seeded random longer ones; directory trees with dirs/files/hidden names/"
        "names sharing a prefix with the fs root and patterns over the same alphabet incl. `.`/`..`. "
        "non-trivial = at least two components, or a wildcard that matched something, or a pattern pair where the "
        "three cases disagree with plain equality")
ASSUMPTIONS = ["glob(3)/fnmatch(3) of glibc are modelled for *, ?, bracket expressions, backslash escapes, brace alternatives (GLOB_BRACE), "
               "literals and the leading-period rule; character classes ([:alpha:]) and collating elements are not generated",
               "a tenth of the resolve trees put the cgroup-fs root at a directory whose own name contains a glob metacharacter (f[s], f?, f*, f\\s, {fs,zz}, f[!a]; half of them next to the directory the unescaped name would match): the root is a place, not a pattern (found and repaired: /repo f51bd03); the scratch directory above the root has no such characters"]
TRUSTED = ["glibc glob(3) (modelled, validated by the correspondence run)"]
EXHAUSTIVE = {"quick": True, "thorough": True}


def all_strings(maxlen):
    for n in range(maxlen + 1):
        for t in itertools.product(ALPHA, repeat=n):
            yield "".join(t)


def rand_str(rng, lo, hi, alpha=ALPHA):
    return "".join(rng.choice(alpha) for _ in range(rng.randint(lo, hi)))


NAMES = ["a", "b", "ab", "ba", "aa", ".a", ".b", "a.b", "fs", "fsx", "a*"]


def rand_tree(rng):
    dirs, files = set(), set()
    base = "r/p/fs"
    dirs.update(["r", "r/p", base])
    if rng.random() < 0.5:
        dirs.add("r/p/fsx")       # shares a string prefix with the fs root
        dirs.add("r/p/fsx/a")
    if rng.random() < 0.3:
        dirs.add("r/a")
    frontier = [base]
    for depth in range(rng.randint(1, 3)):
        nxt = []
        for d in frontier:
            for n in rng.sample(NAMES[:10], rng.randint(0, 4)):
                if rng.random() < 0.75:
                    dirs.add(d + "/" + n)
                    nxt.append(d + "/" + n)
                else:
                    files.add(d + "/" + n)
        frontier = nxt
    files = {f for f in files if f not in dirs}
    return sorted(dirs), sorted(files)


def bracketify(rng, name):
    """a bracket expression (or a backslash escape) in place of one character: [ab] [a-b] [!a] [^b] []a] \\a"""
    if not name:
        return rng.choice(["[ab]", "[!a]", "[a-b]"])
    i = rng.randrange(len(name))
    c = name[i]
    other = "b" if c != "b" else "a"
    cls = rng.choice(["[%s]" % c, "[%s%s]" % (c, other), "[%s%s]" % (other, c), "[a-b]", "[!%s]" % other, "[^%s]" % other,
                      "[!%s]" % c, "[%s]" % other, "[a-a]", "[b-b]", "[]%s]" % c, "[%s-]" % c, "[.ab]", "\\" + c, "[!a-b]"])
    return name[:i] + cls + name[i + 1:]


def braceify(rng, name):
    """GLOB_BRACE alternatives around (part of) a name; also the forms glob leaves alone: no comma, no closing brace"""
    other = rng.choice(["a", "b", "ab", "zz", "*", "a?", ""])
    r = rng.random()
    if r < 0.35:
        alts = [name, other]
        rng.shuffle(alts)
        return "{" + ",".join(alts) + "}"
    if r < 0.55 and name:
        i = rng.randrange(len(name) + 1)
        return name[:i] + "{" + name[i:] + "," + other + "}"
    if r < 0.7:
        return "{" + other + ",{" + name + ",b}}"
    if r < 0.8:
        return "{" + name + "}"            # no comma: literal
    if r < 0.9:
        return "{" + name + "," + other    # unterminated: literal
    return "{" + name + "," + other + "," + name + "}"     # the same alternative twice


def wildify(rng, name):
    r = rng.random()
    if r < 0.22:
        return name
    if r < 0.32:
        return braceify(rng, name)
    if r < 0.44:
        return bracketify(rng, name)
    if r < 0.5:
        return "*"
    if r < 0.65 and name:
        i = rng.randrange(len(name))
        return name[:i] + "?" + name[i + 1:]
    if r < 0.85 and name:
        i = rng.randrange(len(name) + 1)
        j = rng.randrange(i, len(name) + 1)
        return name[:i] + "*" + name[j:]
    return name + rng.choice(["", "*", "?", "a"])


def pattern_from_tree(rng, dirs, files):
    cands = [d for d in dirs + files if d.startswith("r/p/fs/")]
    if not cands:
        return rand_pattern(rng)
    rel = rng.choice(cands)[len("r/p/fs/"):].split("/")
    comps = []
    for c in rel:
        comps.append(wildify(rng, c))
        if rng.random() < 0.08:
            comps.append(rng.choice([".", "..", "*/.."]))
    return "/".join(comps)


def rand_pattern(rng):
    comps = []
    for _ in range(rng.randint(0, 4)):
        r = rng.random()
        if r < 0.35:
            comps.append(rng.choice(NAMES[:10]))
        elif r < 0.5:
            comps.append("*")
        elif r < 0.6:
            comps.append(rng.choice([".", ".."]))
        else:
            comps.append(rand_str(rng, 1, 3, "ab*?."))
    # keep the walk inside the scratch area: at most two net `..`
    up = 0
    ok = []
    for c in comps:
        if c == "..":
            if up >= 2:
                continue
            up += 1
        ok.append(c)
    s = "/".join(ok)
    if rng.random() < 0.2:
        s = "/" + s
    if rng.random() < 0.2:
        s = s + "/"
    return s.replace("/", "//", 1) if rng.random() < 0.1 else s


def gen(rng, tier):
    n1, n2, nr, nt = {"quick": (4, 3, 600, 1500), "thorough": (6, 4, 20000, 40000), "search": (5, 3, 5000, 10000)}[tier]
    fss = ["/r", "/r/", "/", "/r//", "r", ""]
    i = 0
    for s in all_strings(n1):
        yield {"kind": "path", "fs": fss[i % len(fss)], "s": s, "child": rand_str(rng, 0, 4)}
        i += 1
    for _ in range(nr):
        yield {"kind": "path", "fs": rng.choice(fss + [rand_str(rng, 0, 5, "ab/")]), "s": rand_str(rng, 5, 14),
               "child": rand_str(rng, 0, 8)}
    # the root and one-component paths as receivers of getChild with every short argument (also multi-component ones)
    for recv in ("", "/", "a", "a/", "/a/b"):
        for c in all_strings(min(n1, 4)):
            yield {"kind": "path", "fs": "/r", "s": recv, "child": c}
    short = list(all_strings(n2))
    for a in short:
        for b in short:
            if tier == "quick" and (len(a) + len(b) > 5) and rng.random() < 0.5:
                continue
            yield {"kind": "pair", "fsa": "/r", "fsb": "/r", "a": a, "b": b}
    for _ in range(nr):
        fa, fb = rng.choice([("/r", "/r"), ("/r", "/r/"), ("/r/a", "/r"), ("/r", "/r/a"), ("/", "/r")])
        yield {"kind": "pair", "fsa": fa, "fsb": fb, "a": rand_str(rng, 0, 10), "b": rand_str(rng, 0, 10)}
    # the same absolute path reached from different fs roots (equality / hashing must agree)
    for _ in range(nr // 2):
        parts = [rng.choice(["a", "b", "ab", "a.b", "*", "b?"]) for _ in range(rng.randint(1, 5))]
        i, j = rng.randint(0, len(parts)), rng.randint(0, len(parts))
        def mk(k):
            fs = "/r" + "".join("/" + x for x in parts[:k]) + rng.choice(["", "/"])
            rel = "/".join(parts[k:])
            return fs, rng.choice(["", "/"]) + rel + rng.choice(["", "/"])
        fa, a = mk(i)
        fb, b = mk(j)
        if rng.random() < 0.25:
            b = b + rng.choice(["a", "/b"])
        yield {"kind": "pair", "fsa": fa, "fsb": fb, "a": a, "b": b}
    for _ in range(nt):
        dirs, files = rand_tree(rng)
        # non-directories of other file types (unix sockets and block devices share a mode bit with directories)
        fkinds = {f: rng.choice(["sock", "sock", "fifo", "blk"]) for f in files if rng.random() < 0.35}
        sc = {"kind": "resolve", "dirs": dirs, "files": files, "fkinds": fkinds, "fsAt": "r/p/fs",
              "pattern": rand_pattern(rng) if rng.random() < 0.3 else pattern_from_tree(rng, dirs, files),
              "fs_trailing_slash": rng.random() < 0.2}
        if rng.random() < 0.1:
            # a cgroup-fs root whose own name contains a character glob(3) interprets: the root is a place, not a pattern.
            # Half of the time a directory the root would match as a pattern sits next to it, with the same content.
            meta = rng.choice(["f[s]", "f?", "f*", "f\\s", "{fs,zz}", "f[!a]"])
            ren = lambda q: meta + q[len("r/p/fs"):] if False else q
            def mv(q):
                return "r/p/" + meta + q[len("r/p/fs"):] if (q == "r/p/fs" or q.startswith("r/p/fs/")) else q
            twin = rng.random() < 0.5
            nd = [mv(d) for d in dirs] + ([d for d in dirs if d == "r/p/fs" or d.startswith("r/p/fs/")] if twin else [])
            nf = [mv(f) for f in files] + ([f for f in files if f.startswith("r/p/fs/")] if twin else [])
            sc.update(dirs=sorted(set(nd)), files=sorted(set(nf)), fsAt="r/p/" + meta,
                      fkinds={mv(k): v for k, v in fkinds.items()})
        yield sc


def nontrivial(s, t, v):
    if s["kind"] == "path":
        return len(t.get("parts", [])) >= 2
    if s["kind"] == "pair":
        return t.get("prefix") != t.get("eq")
    return len(t.get("resolved", [])) >= 1 and any(c in s["pattern"] for c in "*?")


def bucket(s, t, v):
    b = [s["kind"]]
    if s["kind"] == "resolve":
        b.append("resolve:n=%d" % min(len(t.get("resolved", [])), 5))
        if ".." in s["pattern"]:
            b.append("resolve:dotdot")
    if s["kind"] == "pair":
        b.append("pair:prefix=%s" % t.get("prefix"))
    return b


def shrink_candidates(s):
    if s["kind"] == "resolve":
        for i in range(len(s["dirs"])):
            d = s["dirs"][i]
            if d in ("r", "r/p", "r/p/fs"):
                continue
            nd = [x for x in s["dirs"] if not (x == d or x.startswith(d + "/"))]
            yield dict(s, dirs=nd, files=[f for f in s["files"] if not f.startswith(d + "/")])
        for i in range(len(s["files"])):
            yield dict(s, files=s["files"][:i] + s["files"][i + 1:])
    for k in ("s", "child", "a", "b", "pattern"):
        if k in s:
            for i in range(len(s[k])):
                yield dict(s, **{k: s[k][:i] + s[k][i + 1:]})

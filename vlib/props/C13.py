"""C13 - drop-in override semantics (engine h_dropin, driver drv_dropin).

Model lean/OomdModel/DropIn.lean, theorems lean/OomdProps/C13.lean, harness harness/h_dropin.cpp."""
import itertools

PROP = "C13"
ENGINE = "dropin"
HARNESS = "h_dropin"
FLAVOUR = "asan"
S = 1000000000
EXHAUSTIVE = {"quick": True, "thorough": True}
RULE = ("histories of drop-in operations (add / re-add / remove / failing add: unknown target, part not opened up, plugin or "
        "hook that cannot be instantiated, malformed field, target known to the adaptor's IR but not to the engine = "
        "partial-add cleanup) over tags a,b,c against 1-3 base rulesets with every combination of the three permission bits, "
        "multi-ruleset drop-in files, base and drop-in prekill hooks; one probe tick after each group of operations. "
        "quick: every operation sequence of length <= 3 over a 15-letter alphabet (3 tags x 5 kinds: remove, add one ruleset, "
        "add two rulesets, add refused by the engine after two insertions, add with unknown target) with both base rulesets "
        "opened up, every sequence of length 1 for each of the 64 permission combinations, + 2000 random histories "
        "of up to 25 operations (random permissions), half of them with a twin history (same history without one tag) for "
        "reversibility; thorough: length <= 4, length <= 2 x 64 combinations and 40000 random. non-trivial = at least two accepted adds and (a removal, a refused add or a re-add)")
ASSUMPTIONS = [
    "plugins and prekill hooks are scripted (harness/h_dropin.cpp); a hook's canRunOnCgroup is a set of probe names",
    "a fifth of the histories give base rulesets a ruleset-level `cgroup` (and half of those an xattr_filter) that exactly one cgroup "
    "matches and passes; what per-cgroup instances are beyond that is C11's subject",
    "fewer than 2^31 drop-ins (numTargeted_ and the statistics are 32-bit)",
    "a drop-in whose compile fails is not queued at all (DropInServiceAdaptor::scheduleDropInAdd returns false): "
    "a previous drop-in with the same tag stays active - what the file watcher does then is C14",
]
TRUSTED = ["scripted plugins / hooks + virtual clock in harness/h_dropin.cpp"]

TAGS = ["a", "b", "c"]
PROBES = ["p0", "p1", "p2"]


class Ids:
    def __init__(self):
        self.n = 0
        self.dets = []
        self.acts = []

    def det(self):
        self.n += 1
        self.dets.append(self.n)
        return self.n

    def act(self):
        self.n += 1
        self.acts.append(self.n)
        return self.n

    def bad(self, rng):
        self.n += 1
        return {"inst": self.n, rng.choice(["fail_init", "unknown"]): True}


def perm_of(k):
    return {"disable": bool(k & 1), "dg": bool(k & 2), "act": bool(k & 4)}


def mk_groups(rng, ids, gid0, lo=1):
    gs = []
    for g in range(rng.randint(lo, 2)):
        gs.append({"gid": gid0 + g, "dets": [ids.det() for _ in range(rng.randint(1, 2))]})
    return gs


def mk_base(rng, ids, rid, perm):
    return {"rid": rid, "groups": mk_groups(rng, ids, 10 * rid), "actions": [ids.act() for _ in range(rng.randint(1, 2))],
            "delay": rng.choice(["", "0", "2", "15"]), "hook_timeout": rng.choice(["", "3"]),
            "silence": rng.choice(["", "engine", " plugins , engine "]), "dropin": perm_of(perm)}


class HookIds:
    def __init__(self):
        self.n = 100

    def hook(self, rng, p_bad=0.0):
        self.n += 1
        h = {"hid": self.n, "match": [p for p in PROBES if rng.random() < 0.45]}
        if rng.random() < p_bad:
            h[rng.choice(["fail_init", "unknown"])] = True
        return h


def mk_dropin_rs(rng, ids, rid, want_groups, want_actions, gid0):
    r = {"rid": rid, "groups": mk_groups(rng, ids, gid0) if want_groups else [],
         "actions": [ids.act() for _ in range(rng.randint(1, 2))] if want_actions else []}
    return r


def mk_calls(rng, ids, busy=True):
    calls = {}
    for d in ids.dets:
        x = rng.random()
        if x < 0.2:
            calls[str(d)] = [1, 0, -1]
        elif x < 0.3:
            calls[str(d)] = [0, rng.choice([S // 4, S]), -1]
    for a in ids.acts:
        x = rng.random()
        if x < 0.3:
            calls[str(a)] = [1, rng.choice([0, S]), rng.choice([-1, -1, 0, 3])]
        elif x < 0.45 and busy:
            calls[str(a)] = [2, 0, -1]
    return calls


def with_twin(s):
    """(re)compute the twin history for s['twin_tag']; drop the twin if the tag's last operation is not a removal"""
    s = dict(s)
    tag = s.get("twin_tag")
    s.pop("twin_ticks", None)
    s.pop("twin_from", None)
    if tag is None:
        return s
    last = None
    for i, t in enumerate(s["ticks"]):
        for o in t.get("ops", []):
            if o["tag"] == tag:
                last = (i, o)
    if last is None or last[1]["op"] != "remove":
        s.pop("twin_tag", None)
        return s
    s["twin_ticks"] = [dict(t, ops=[o for o in t.get("ops", []) if o["tag"] != tag]) for t in s["ticks"]]
    s["twin_from"] = last[0]
    return s


def random_history(rng, nops_max):
    ids, hk = Ids(), HookIds()
    nb = rng.choice([1, 2, 2, 2, 3])
    rids = list(range(nb))
    if nb >= 2 and rng.random() < 0.08:
        rids[1] = 0                       # two base rulesets with the same name: the first is the target
    base = [mk_base(rng, ids, rid, rng.randrange(8)) for rid in rids]
    sc = {"rulesets": base, "hooks": [hk.hook(rng) for _ in range(rng.choice([0, 1, 2, 2]))], "probes": PROBES}
    ghost = rng.random() < 0.3
    if ghost:
        g = mk_base(rng, ids, 9, 6 | rng.randrange(2))
        if rng.random() < 0.15:
            g["silence"] = "bogus"        # the adaptor's IR holds a ruleset that cannot be instantiated
        root = list(base)
        root.insert(rng.randint(0, len(root)), g)
        sc["root"] = root
    nops = rng.randint(1, nops_max)
    ticks = [{"gap": S, "calls": {}, "ops": []}]
    left = nops
    gid = 100
    while left > 0:
        ops = []
        for _ in range(min(left, rng.choice([1, 1, 1, 2, 3]))):
            left -= 1
            tag = rng.choice(TAGS)
            if rng.random() < 0.3:
                ops.append({"op": "remove", "tag": tag})
                continue
            rss = []
            for _ in range(rng.choice([0, 1, 1, 1, 2, 2, 3])):
                x = rng.random()
                rid = 9 if x < 0.08 else (7 if x < 0.12 else rng.choice(rids))
                b = next((r for r in base if r["rid"] == rid), None)
                perm = b["dropin"] if b else {"dg": True, "act": True}
                # mostly ask only for what is opened up, sometimes not
                wg = rng.random() < (0.6 if perm["dg"] else 0.12)
                wa = rng.random() < (0.6 if perm["act"] else 0.12)
                r = mk_dropin_rs(rng, ids, rid, wg, wa, gid)
                gid += 2
                y = rng.random()
                if y < 0.04 and r["actions"]:
                    r["actions"][rng.randrange(len(r["actions"]))] = ids.bad(rng)
                elif y < 0.07 and r["groups"]:
                    g = rng.choice(r["groups"])
                    g["dets"][rng.randrange(len(g["dets"]))] = ids.bad(rng)
                elif y < 0.09:
                    r["silence"] = "bogus"
                elif y < 0.11:
                    r["delay"] = "-1"
                elif y < 0.13 and r["groups"]:
                    rng.choice(r["groups"])["dets"] = []
                elif y < 0.2:
                    r["delay"] = "1"       # accepted and ignored: the copy keeps the base's delay
                    r["dropin"] = perm_of(rng.randrange(8))   # likewise ignored
                rss.append(r)
            hooks = [hk.hook(rng, 0.05) for _ in range(rng.choice([0, 0, 1, 1, 2]))]
            ops.append({"op": "add", "tag": tag, "rulesets": rss, "hooks": hooks})
        ticks.append({"gap": rng.choice([S, S, 5 * S, 20 * S]), "calls": mk_calls(rng, ids), "ops": ops})
        if rng.random() < 0.3:
            ticks.append({"gap": rng.choice([S, 5 * S]), "calls": mk_calls(rng, ids), "ops": []})
    sc["ticks"] = ticks
    if rng.random() < 0.2:
        # some base rulesets are ruleset-cgroup rulesets whose pattern matches exactly one existing cgroup: evaluated through
        # one per-cgroup instance (and so are their drop-in copies), they must behave like the plain ruleset in everything C13
        # states - order, scoped replacement, and being disabled while a drop-in targets them
        # ... (also with an xattr_filter that only s/a passes: s/b matches the pattern but is filtered out, for the base and
        # for every drop-in copy of it)
        sc["tree"] = {"name": "", "children": [{"name": "s", "children": [
            {"name": "a", "xattrs": {"user.oomd_x": "1"}, "children": []}]}]}
        filt = rng.random() < 0.5
        if filt:
            sc["tree"]["children"][0]["children"].append({"name": "b", "children": []})
        for b in base:
            if rng.random() < 0.6:
                b["cgroup"] = rng.choice(["s/a", "s/*", "s/a"])
                if filt:
                    b["cgroup"] = rng.choice(["s/*", "s/*", "s/?"])
                    b["xattr_filter"] = "user.oomd_x"
    return sc


def add_twin(rng, sc):
    used = sorted({o["tag"] for t in sc["ticks"] for o in t["ops"]})
    if not used:
        return sc
    tag = rng.choice(used)
    k = rng.randrange(1, len(sc["ticks"]))
    ticks = []
    for i, t in enumerate(sc["ticks"]):
        t = dict(t)
        if i > k:
            t["ops"] = [o for o in t["ops"] if o["tag"] != tag]
        if i == k:
            t["ops"] = t["ops"] + [{"op": "remove", "tag": tag}]
        ticks.append(t)
    ticks.append({"gap": S, "calls": {}, "ops": []})
    return with_twin(dict(sc, ticks=ticks, twin_tag=tag))


KINDS = ["R", "A0", "A1", "AX", "AU"]


def exhaustive(maxlen, perms=((7, 6),)):
    """every operation sequence up to maxlen over 3 tags x 5 kinds, for each given pair of permission-bit
    combinations of the two base rulesets (default: r0 opens everything up and is disabled on drop-in, r1 opens
    everything up and stays enabled)"""
    letters = [(t, k) for t in TAGS for k in KINDS]
    for L in range(1, maxlen + 1):
        for seq, (p0, p1) in itertools.product(itertools.product(letters, repeat=L), perms):
            base = [{"rid": 0, "groups": [{"gid": 0, "dets": [1]}], "actions": [2], "delay": "0", "dropin": perm_of(p0)},
                    {"rid": 1, "groups": [{"gid": 10, "dets": [3]}], "actions": [4], "delay": "0", "dropin": perm_of(p1)}]
            ghost = {"rid": 9, "groups": [{"gid": 90, "dets": [5]}], "actions": [6], "dropin": perm_of(6)}
            ticks = [{"gap": S, "calls": {}, "ops": []}]
            inst = 10
            hid = 110
            for (tag, kind) in seq:
                if kind == "R":
                    op = {"op": "remove", "tag": tag}
                else:
                    if kind == "A0":
                        rss = [{"rid": 0, "groups": [], "actions": [inst]}]
                    elif kind == "A1":
                        rss = [{"rid": 1, "groups": [{"gid": 50, "dets": [inst]}], "actions": []},
                               {"rid": 0, "groups": [{"gid": 51, "dets": [inst + 1]}], "actions": [inst + 2]}]
                    elif kind == "AX":
                        rss = [{"rid": 0, "groups": [], "actions": [inst]}, {"rid": 1, "groups": [], "actions": []},
                               {"rid": 9, "groups": [], "actions": [inst + 1]}, {"rid": 1, "groups": [], "actions": [inst + 2]}]
                    else:
                        rss = [{"rid": 1, "groups": [], "actions": []}, {"rid": 7, "groups": [], "actions": []}]
                    op = {"op": "add", "tag": tag, "rulesets": rss, "hooks": [{"hid": hid, "match": ["p0"]}]}
                    inst += 3
                    hid += 1
                ticks.append({"gap": S, "calls": {}, "ops": [op]})
            sc = {"rulesets": base, "root": base + [ghost], "hooks": [{"hid": 100, "match": ["p0", "p1"]}],
                  "probes": ["p0", "p1"], "ticks": ticks}
            # reversibility twin for sequences that end with a removal
            if seq[-1][1] == "R":
                sc = with_twin(dict(sc, twin_tag=seq[-1][0]))
            yield sc


def gen(rng, tier):
    if tier != "search":
        for s in exhaustive(4 if tier == "thorough" else 3):
            yield s
        # every combination of the 2 x 3 permission bits against every short sequence
        for s in exhaustive(2 if tier == "thorough" else 1, [(a, b) for a in range(8) for b in range(8)]):
            yield s
    n = {"quick": 2000, "thorough": 40000, "search": 8000}[tier]
    for i in range(n):
        sc = random_history(rng, 25 if i % 4 else 6)
        if rng.random() < 0.5:
            sc = add_twin(rng, sc)
        # a third of the random histories are run as iterations of the real main loop (Oomd::run with the scenario's adaptor
        # installed as its drop-in service): the order updateDropIns -> prerun -> runOnce is then Oomd.cpp's own
        if rng.random() < 0.33:
            sc["main_loop"] = True
        yield sc


def results_of(t):
    return [o[2] for o in t.get("ops", [])]


def nontrivial(s, t, v):
    rs = results_of(t)
    tags = [o["tag"] for tk in s["ticks"] for o in tk["ops"]]
    return rs.count("added") >= 2 and (len(set(rs)) >= 2 or len(set(tags)) < len(tags))


def bucket(s, t, v):
    rs = results_of(t)
    b = ["ops=%s" % ("0-3" if len(rs) <= 3 else "4-10" if len(rs) <= 10 else ">10")]
    for k in ("added", "add-failed", "compile-failed", "removed"):
        if k in rs:
            b.append("has:" + k)
    if "twin_ticks" in s:
        b.append("twin")
    if "root" in s:
        b.append("ghost-root")
    for r in s["rulesets"]:
        d = r.get("dropin", {})
        b.append("perm=%d%d%d" % (d.get("disable", False), d.get("dg", False), d.get("act", False)))
    # deepest drop-in stack seen on one tick (number of detector-sequence repetitions is not observable; use stat)
    mx = max([o[3] for o in t.get("ops", [])] + [0])
    b.append("max_added=%s" % (mx if mx < 4 else ">=4"))
    if any(len(o.get("rulesets", [])) > 1 for tk in s["ticks"] for o in tk["ops"]):
        b.append("multi-ruleset")
    if any(o.get("hooks") for tk in s["ticks"] for o in tk["ops"]):
        b.append("dropin-hooks")
    return b


def shrink_candidates(s):
    tk = s["ticks"]
    for i in range(len(tk)):
        yield with_twin(dict(s, ticks=tk[:i] + tk[i + 1:]))
    for i in range(len(tk)):
        ops = tk[i].get("ops", [])
        for j in range(len(ops)):
            yield with_twin(dict(s, ticks=tk[:i] + [dict(tk[i], ops=ops[:j] + ops[j + 1:])] + tk[i + 1:]))
    for i in range(len(tk)):
        if tk[i].get("calls"):
            yield with_twin(dict(s, ticks=tk[:i] + [dict(tk[i], calls={})] + tk[i + 1:]))
    for i in range(len(tk)):
        ops = tk[i].get("ops", [])
        for j, o in enumerate(ops):
            if o["op"] != "add":
                continue
            for key in ("rulesets", "hooks"):
                for k in range(len(o.get(key, []))):
                    o2 = dict(o)
                    o2[key] = o[key][:k] + o[key][k + 1:]
                    yield with_twin(dict(s, ticks=tk[:i] + [dict(tk[i], ops=ops[:j] + [o2] + ops[j + 1:])] + tk[i + 1:]))
    if s.get("hooks"):
        yield dict(s, hooks=[])
    if "twin_tag" in s:
        s2 = dict(s)
        for k in ("twin_tag", "twin_ticks", "twin_from"):
            s2.pop(k, None)
        yield s2

"""C01 - kill containment (engine h_kill, shared kill model)."""
from . import _kill
from ._kill import ENGINE, HARNESS, FLAVOUR, ASSUMPTIONS, TRUSTED, classify, bucket, shrink_candidates, extra_coverage  # noqa: F401

PROP = "C01"
RULE = ("random cgroup trees (depth <= 4, branching <= 4; thorough 6 / 6) with wildcard-ambiguous sibling names, empty and "
        "populated cgroups, 0..45 pids per cgroup (crossing the stream size 20), `0` lines in cgroup.procs, the five kill "
        "plugins x boolean arguments x multi-pattern / wildcard `cgroup`, per-pid kill(2) outcome scripts (dies, lingers, "
        "ESRCH, EPERM), setxattr / control-file write failures, 1-3 ticks with cgroups removed, re-created, refilled. "
        "non-trivial = at least one signal sent and at least one cgroup outside the victim's subtree has processes")


def gen(rng, tier):
    return _kill.gen(rng, tier, PROP, [("base", 77), ("zero", 15), ("meta", 8)] if tier != "search" else [("base", 50), ("zero", 10), ("meta", 40)])


def nontrivial(s, t, v):
    evs = list(_kill.all_events(t))
    if not any(e["ev"] == "kill" for e in evs):
        return False
    victims = {e["cg"] for e in evs if e["ev"] in ("procs", "setxattr")}
    return any(n["procs"] and n["id"] not in victims for _, n in _kill.nodes_of(s))

"""C01 - kill containment (engine h_kill, shared kill model)."""
from . import _kill
from ._kill import ENGINE, HARNESS, FLAVOUR, ASSUMPTIONS, TRUSTED, classify, bucket, shrink_candidates, extra_coverage  # noqa: F401

PROP = "C01"
RULE = ("random cgroup trees (depth <= 4, branching <= 4; thorough 6 / 6) with wildcard-ambiguous sibling names, empty and "
        "populated cgroups, 0..45 pids per cgroup (crossing the stream size 20), `0` lines in cgroup.procs, the five kill "
        "plugins x boolean arguments x multi-pattern / wildcard `cgroup`, per-pid kill(2) outcome scripts (dies, lingers, "
        "ESRCH, EPERM), setxattr / control-file write failures, 1-3 ticks with cgroups removed, re-created, refilled. "
        "non-trivial = at least one signal sent and at least one cgroup outside the victim's subtree has processes")


def gen(rng, tier):
    return _kill.gen(rng, tier, PROP, [("base", 69), ("zero", 15), ("meta", 8), ("swap", 8)] if tier != "search" else [("base", 40), ("zero", 10), ("meta", 30), ("swap", 20)])


def nontrivial(s, t, v):
    evs = list(_kill.all_events(t))
    if not any(e["ev"] == "kill" for e in evs):
        return False
    victims = {e["cg"] for e in evs if e["ev"] in ("procs", "setxattr")}
    return any(n["procs"] and n["id"] not in victims for _, n in _kill.nodes_of(s))


# ---- containment on the prekill-hook resume path: decided on the kill plugins with hooks configured ----------------------
#
# h_kill configures no prekill hook, so a kill that is deferred by a hook and carried out on a later tick - victim restored
# from a (path, id) reference, pids read through the contexts of the resuming tick, cgroups removed / re-created meanwhile -
# is not run there.  The containment clauses for that path are evaluated on the C07 engine (h_hook): only C01.* clauses count.

def run(tier, seed, replay=None):
    import sys
    from . import _hookpass
    return _hookpass.run(sys.modules[__name__], tier, seed, replay, "C01.", "hookcontain",
                         "containment pass (kill plugins with scripted prekill hooks, h_hook): the C07 scenario space (victims and "
                         "fallback candidates removed / re-created while a hook runs); clauses: signals only to pids listed by a "
                         "cgroup.procs read of the same attempt inside the victim's subtree, xattr / control-file writes name the "
                         "victim, the victim was a candidate when the kill cycle started")

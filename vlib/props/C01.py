"""C01 - kill containment (engine h_kill, shared kill model)."""
from . import _kill
from ._kill import ENGINE, HARNESS, FLAVOUR, ASSUMPTIONS, TRUSTED, classify, bucket, shrink_candidates, extra_coverage  # noqa: F401

PROP = "C01"
RULE = ("random cgroup trees (depth <= 4, branching <= 4; thorough 6 / 6) with wildcard-ambiguous sibling names, empty and "
        "populated cgroups, 0..45 pids per cgroup (crossing the stream size 20), `0` lines in cgroup.procs, the five kill "
        "plugins x boolean arguments x multi-pattern / wildcard `cgroup`, per-pid kill(2) outcome scripts (dies, lingers, "
        "ESRCH, EPERM), setxattr / control-file write failures, 1-3 ticks with cgroups removed, re-created, refilled. "
        "non-trivial = at least one signal sent and at least one cgroup outside the victim's subtree has processes")


def gen(rng, tier):
    return _kill.gen(rng, tier, PROP, [("base", 77), ("zero", 15), ("meta", 8)] if tier != "search" else [("base", 50), ("zero", 10), ("meta", 40)])


def nontrivial(s, t, v):
    evs = list(_kill.all_events(t))
    if not any(e["ev"] == "kill" for e in evs):
        return False
    victims = {e["cg"] for e in evs if e["ev"] in ("procs", "setxattr")}
    return any(n["procs"] and n["id"] not in victims for _, n in _kill.nodes_of(s))


# ---- containment on the prekill-hook resume path: decided on the kill plugins with hooks configured ----------------------
#
# h_kill configures no prekill hook, so a kill that is deferred by a hook and carried out on a later tick - victim restored
# from a (path, id) reference, pids read through the contexts of the resuming tick, cgroups removed / re-created meanwhile -
# is not run there.  The containment clauses for that path are evaluated on the C07 engine (h_hook): only C01.* clauses count.

def hook_scenarios(rng, tier):
    from . import C07
    n = {"quick": 1500, "thorough": 20000, "search": 4000}[tier]
    for _ in range(n):
        s = C07.gen_one(rng, tier)
        s["prop"] = PROP
        yield s


def run(tier, seed, replay=None):
    import json
    import os
    import random
    import sys
    from .. import core
    from . import C07
    mod = sys.modules[__name__]

    def want(c):
        return c.startswith("C01.")
    if replay:
        rp = json.load(open(replay))
        if rp.get("pass") == "hookcontain":
            viol, _, _ = core.extra_pass(PROP, "hook", "h_hook", "asan", [rp["scenario"]], tier, seed, want=want, label="hookcontain")
            for c, p in viol:
                print("VIOLATION property=%s replay=%s" % (PROP, p))
            return 1 if viol else 0
        return core.run_check(mod, tier, seed, replay)
    rc = core.run_check(mod, tier, seed, replay)
    esc = tier == "quick" and core.changed_sources() and not os.environ.get("VERIF_NO_ESCALATION")
    scs = list(hook_scenarios(random.Random(seed * 6037 + 29), "search" if esc else tier))
    viol, cov, res = core.extra_pass(PROP, "hook", "h_hook", "asan", scs, tier, seed, want=want,
                                     shrink_candidates=C07.shrink_candidates, label="hookcontain")
    cov["hookcontain_pass_kills_after_wait"] = sum(1 for s, t, v in res if "ticks_waited" in (v.get("tags") or []))
    core.merge_extra_into_evidence(PROP, cov, len(viol),
                                   "containment pass (kill plugins with scripted prekill hooks, h_hook): the C07 scenario space (victims and "
                                   "fallback candidates removed / re-created while a hook runs); clauses: signals only to pids listed by a "
                                   "cgroup.procs read of the same attempt inside the victim's subtree, xattr / control-file writes name the "
                                   "victim, the victim was a candidate when the kill cycle started")
    for c, p in viol:
        print("VIOLATION property=%s replay=%s" % (PROP, p))
    return 1 if (rc or viol) else 0

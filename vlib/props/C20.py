"""C20 - async logger: exactly-once FIFO delivery, bounded backlog, drops reported, flush on shutdown,
per-thread silencing, kmsg record never suppressed (engine h_log, TSan build, real time).

The generic pipeline of vlib/core.py is used unchanged: a TSan report, a crash or a hang of the real code
ends the harness process (`halt_on_error=1`) and is attributed to the scenario that was running.
"""
import os

PROP = "C20"
ENGINE = "log"
HARNESS = "h_log"
FLAVOUR = "tsan"
JOBS = 6
CHUNK = 6
TIMEOUT = 240

os.environ.setdefault("TSAN_OPTIONS", "halt_on_error=1:second_deadlock_stack=1")

MAXSIZE = 1024 * 1024

RULE = ("real Oomd::Log (get_for_unittest, async) + real LogStream over a gated std::streambuf; 1-8 producer threads; "
        "line sizes 1 B .. 300 KiB (tiny 1-19 B via debugLog, small, medium, large); LogStream::Control tokens in "
        "all statement forms on a subset of threads; kmsgLog from silenced and unsilenced threads; sink fast / slow "
        "(per-write delay) / blocked (gate closed, single writes let through, reopened later or only during ~Log); "
        "producers parked at barriers so that backlog marks are exact; shutdown after all scripts or cut at a "
        "barrier, with the sink open, slow or still blocked.  families: burst, slow, blocked (fill the queue against "
        "a closed gate, one or two rounds, with an in-flight batch), cut (shutdown at a random barrier), silence, "
        "small-total (blocked, everything fits: nothing may be dropped), exact (blocked, total exactly 1 MiB, or 1 MiB + "
        "1 .. 5000 bytes).  non-trivial = >= 2 producers or a blocked "
        "sink, at least one line delivered, and at least one of: a drop was reported, a mark saw unwritten bytes, "
        "a silenced statement, a kmsg record")
ASSUMPTIONS = ["no producer calls into the logger after the io thread's final queue swap (a line offered then is lost by "
               "construction: nobody is left to write it); family `late` offers lines while ~Log is already waiting but provably "
               "before that swap (the io thread is blocked in the sink), which must be delivered",
               "the sink never fails (no badbit); only its speed varies",
               "the OLOG copy that kmsgLog sends to the process-wide singleton logger is not observed (the harness "
               "logger is a separate instance); the kmsg fd record is",
               "drop reports are recognised by their single decimal number; the wording is not compared"]
TRUSTED = ["ThreadSanitizer (data races, lock-order), real-time scheduling of the sandbox (which interleavings occur)",
           "harness parser of the sink byte stream (self-delimiting line encoding, content verified byte by byte)"]


# ------------------------------------------------------------------------------------------------
def size(rng, kind=None):
    kind = kind or rng.choices(["tiny", "small", "medium", "large"], [2, 5, 3, 1])[0]
    if kind == "tiny":
        return rng.randint(1, 19)
    if kind == "small":
        return rng.randint(20, 200)
    if kind == "medium":
        return rng.randint(1000, 20000)
    return rng.randint(100000, 300 * 1024)


def line_op(rng, kind=None):
    n = size(rng, kind)
    if n < 20:
        return {"k": "raw", "n": n}
    return {"k": rng.choice(["log", "log", "log", "raw"]), "n": n}


def nest_ops(rng):
    """one statement whose operand logs a line of its own (harness: two LogStreams alive on the thread)"""
    return [{"k": "nest", "n": rng.randint(20, 400)}, {"k": "nestout", "n": rng.randint(20, 400)}]


def ctl_ops(rng):
    """a silenced stretch for one thread, in one of the statement forms"""
    out = [rng.choice([{"k": "dis"}, {"k": "dislog", "n": rng.randint(20, 80)}])]
    for _ in range(rng.randint(0, 4)):
        r = rng.random()
        if r < 0.1:
            out += nest_ops(rng)
        elif r < 0.6:
            out.append({"k": "log", "n": rng.randint(20, 3000)})
        elif r < 0.75:
            out.append({"k": "kmsg", "n": rng.randint(30, 160)})
        elif r < 0.9:
            out.append({"k": "raw", "n": rng.randint(1, 400)})
        else:
            out.append({"k": "dis"})
    out.append(rng.choice([{"k": "en"}, {"k": "enlog", "n": rng.randint(20, 200)}, {"k": "mix", "n": rng.randint(20, 200)}]))
    return out


def body(rng, nops, kinds=None, ctl=0.0, kmsg=0.0, pause=0.0):
    ops = []
    while len(ops) < nops:
        r = rng.random()
        if r < ctl:
            ops += ctl_ops(rng)
        elif r < ctl + kmsg:
            ops.append({"k": "kmsg", "n": rng.randint(30, 160)})
        elif r < ctl + kmsg + pause:
            ops.append(rng.choice([{"k": "yield"}, {"k": "us", "n": rng.randint(1, 300)}]))
        elif rng.random() < 0.08:
            ops += nest_ops(rng)
        else:
            ops.append(line_op(rng, rng.choice(kinds) if kinds else None))
    return ops


def fill(rng, total, kinds=("medium", "large", "large")):
    """line ops adding up to roughly `total` bytes"""
    ops, got = [], 0
    while got < total:
        o = line_op(rng, rng.choice(kinds))
        ops.append(o)
        got += o["n"]
    return ops


def gen_burst(rng, big=False):
    np_ = rng.randint(1, 8)
    prods = []
    for p in range(np_):
        kinds = None if not big else ["medium", "large", "small"]
        prods.append(body(rng, rng.randint(3, 60 if not big else 25), kinds, ctl=0.08 if rng.random() < 0.5 else 0.0,
                          kmsg=0.03, pause=0.05))
    return {"family": "burst", "producers": prods, "sink": {"us": 0}, "script": []}


def gen_oversize(rng):
    """the flusher is idle (fast sink, everything written, asleep on its empty queue) when a line that alone exceeds the bound
    arrives: it is dropped, and the drop has to show up in the output - with the next accepted line or, if none follows, at
    shutdown"""
    ops = [line_op(rng, rng.choice(["tiny", "small", "medium"])) for _ in range(rng.randint(0, 4))]
    for _ in range(rng.randint(1, 3)):
        ops.append({"k": "us", "n": rng.choice([3000, 6000, 12000])})
        ops.append({"k": rng.choice(["log", "raw"]), "n": (1 << 20) + rng.choice([1, 2, 100, 4096, 1 << 19])})
        ops.append({"k": "us", "n": rng.choice([0, 500, 3000])})
        ops += [line_op(rng, rng.choice(["tiny", "small", "medium"])) for _ in range(rng.choice([0, 0, 1, 3]))]
    return {"family": "oversize", "producers": [ops], "sink": {"us": 0}, "script": []}


def gen_slow(rng):
    np_ = rng.randint(1, 6)
    prods = [body(rng, rng.randint(3, 25), ["tiny", "small", "small", "medium"], ctl=0.1, kmsg=0.03, pause=0.1) for _ in range(np_)]
    return {"family": "slow", "producers": prods, "sink": {"us": rng.choice([20, 100, 400, 1500])}, "script": []}


def gen_silence(rng):
    np_ = rng.randint(2, 8)
    prods = []
    for p in range(np_):
        if p == 0 or rng.random() < 0.6:
            prods.append(body(rng, rng.randint(8, 40), ["small", "small", "tiny"], ctl=0.35, kmsg=0.1, pause=0.05))
        else:
            prods.append(body(rng, rng.randint(8, 40), ["small", "small", "tiny"], kmsg=0.05, pause=0.05))
    return {"family": "silence", "producers": prods, "sink": {"us": rng.choice([0, 0, 30])}, "script": []}


def gen_blocked(rng, small_total=False):
    """close the gate; one line gets the flusher stuck holding a batch; fill the queue; mark; optionally let the
    in-flight line through so that a full batch is in flight, fill again; mark; open / shut down"""
    np_ = rng.randint(1, 6)
    first = line_op(rng, rng.choice(["small", "medium", "large"]))
    if first["n"] < 20:
        first = {"k": "log", "n": 64}
    rounds = 1 if small_total else rng.choice([1, 2, 2, 3])
    if small_total:
        budget = rng.randint(50000, MAXSIZE - first["n"] - 1000)
        per = [budget // (np_ * rounds)] * np_
    else:
        per = [rng.randint(150000, 2600000) // max(1, np_ // 2) for _ in range(np_)]
    prods = [[] for _ in range(np_)]
    prods[0] += [{"k": "bar", "i": 0}, first]
    script = [{"k": "close"}, {"k": "release", "i": 0}, {"k": "arrive", "i": 1}, {"k": "blocked", "ms": 400}]
    b = 1
    for r in range(rounds):
        for p in range(np_):
            prods[p].append({"k": "bar", "i": b})
            if small_total:
                ops, got = [], 0
                while True:
                    o = line_op(rng, rng.choice(["small", "medium", "medium", "large"]))
                    if got + o["n"] > per[p]:
                        break
                    ops.append(o)
                    got += o["n"]
                prods[p] += ops
            else:
                prods[p] += fill(rng, per[p], ("medium", "large", "large", "small"))
                if rng.random() < 0.3:
                    prods[p] += ctl_ops(rng)
        script += [{"k": "release", "i": b}, {"k": "arrive", "i": b + 1}, {"k": "mark"}]
        b += 1
        if r + 1 < rounds:
            # let the stuck write (and possibly a few more) through: the flusher takes the filled queue as its batch
            script += [{"k": "budget", "n": rng.choice([1, 1, 1, 2, 5])}, {"k": "us", "n": rng.choice([2000, 10000, 30000])},
                       {"k": "blocked", "ms": 400}]
    for p in range(np_):
        prods[p].append({"k": "bar", "i": b})
    end = rng.random()
    if end < 0.5:
        script += [{"k": "open"}, {"k": "release", "i": b}, {"k": "join"}, {"k": "shutdown"}]
    elif end < 0.8:
        script += [{"k": "shutdown", "open_after_us": rng.choice([0, 500, 5000, 30000])}]
    else:
        script += [{"k": "open"}, {"k": "us", "n": rng.choice([0, 100, 3000])}, {"k": "mark"}, {"k": "shutdown"}]
    return {"family": "small-total" if small_total else "blocked", "producers": prods,
            "sink": {"us": rng.choice([0, 0, 0, 50])}, "script": script}


def gen_exact(rng):
    """blocked sink, everything logged adds up to exactly the cap (nothing may be dropped) or to the cap plus a
    little (something must be)"""
    np_ = rng.randint(1, 4)
    over = rng.choice([0, 0, 1, rng.randint(2, 5000)])
    left = MAXSIZE + over
    sizes = []
    while left > 0:
        n = min(left, size(rng, rng.choice(["medium", "large", "large", "small", "tiny"])))
        if 0 < left - n < 1:
            n = left
        sizes.append(n)
        left -= n
    rng.shuffle(sizes)
    first = sizes.pop()
    prods = [[] for _ in range(np_)]
    prods[0] += [{"k": "bar", "i": 0}, {"k": "raw", "n": first}]
    for p in range(np_):
        prods[p].append({"k": "bar", "i": 1})
    for n in sizes:
        prods[rng.randrange(np_)].append({"k": "raw", "n": n} if n < 20 or rng.random() < 0.3 else {"k": "log", "n": n})
    for p in range(np_):
        prods[p].append({"k": "bar", "i": 2})
    script = [{"k": "close"}, {"k": "release", "i": 0}, {"k": "arrive", "i": 1}, {"k": "blocked", "ms": 400},
              {"k": "release", "i": 1}, {"k": "arrive", "i": 2}, {"k": "mark"},
              {"k": "shutdown", "open_after_us": rng.choice([0, 1000])}]
    return {"family": "exact" if over == 0 else "exact+%d" % min(over, 2), "producers": prods, "sink": {"us": 0}, "script": script}


def gen_rush(rng):
    """blocked sink, the backlog a little below the cap, then every producer offers one line at the same moment (barrier): the
    room left holds exactly one of them - whichever order the producers get the lock in, one is accepted and the others are
    dropped and counted; the backlog never exceeds the cap"""
    np_ = rng.randint(3, 8)
    L = rng.randint(60000, 280000)
    room = rng.randint(L, 2 * L - 1)
    first = rng.randint(20, 5000)
    left = MAXSIZE - first - room
    sizes = []
    while left > 0:
        n = min(left, size(rng, rng.choice(["medium", "large", "large", "small"])))
        sizes.append(n)
        left -= n
    prods = [[] for _ in range(np_)]
    prods[0] += [{"k": "bar", "i": 0}, {"k": "raw", "n": first}]
    for p in range(np_):
        prods[p].append({"k": "bar", "i": 1})
    for n in sizes:
        prods[rng.randrange(np_)].append({"k": "raw", "n": n} if n < 20 or rng.random() < 0.3 else {"k": "log", "n": n})
    for p in range(np_):
        prods[p] += [{"k": "bar", "i": 2}, {"k": "rush", "n": L, "parties": np_}, {"k": "bar", "i": 3}]
    script = [{"k": "close"}, {"k": "release", "i": 0}, {"k": "arrive", "i": 1}, {"k": "blocked", "ms": 400},
              {"k": "release", "i": 1}, {"k": "arrive", "i": 2}, {"k": "mark"},
              {"k": "release", "i": 2}, {"k": "arrive", "i": 3}, {"k": "mark"},
              {"k": "shutdown", "open_after_us": rng.choice([0, 1000])}]
    return {"family": "rush", "producers": prods, "sink": {"us": 0}, "script": script}


def gen_cut(rng):
    """producers work in phases separated by barriers; shutdown arrives at a random barrier"""
    np_ = rng.randint(1, 8)
    phases = rng.randint(2, 4)
    prods = [[] for _ in range(np_)]
    for ph in range(phases):
        for p in range(np_):
            prods[p] += body(rng, rng.randint(1, 15), None if rng.random() < 0.7 else ["medium", "large"], ctl=0.06, kmsg=0.03, pause=0.08)
            prods[p].append({"k": "bar", "i": ph})
    for p in range(np_):
        prods[p] += body(rng, rng.randint(1, 6))
    cut = rng.randint(0, phases - 1)
    script = []
    gate = rng.random()
    if gate < 0.35:
        script.append({"k": "close"})
    for ph in range(cut):
        script += [{"k": "arrive", "i": ph}]
        if rng.random() < 0.3:
            script.append({"k": "mark"})
        if gate < 0.35 and rng.random() < 0.5:
            script.append({"k": "budget", "n": rng.randint(1, 20)})
        script.append({"k": "release", "i": ph})
    script += [{"k": "arrive", "i": cut}]
    if rng.random() < 0.5:
        script.append({"k": "mark"})
    script.append({"k": "shutdown", "open_after_us": rng.choice([0, 0, 200, 2000, 20000])})
    return {"family": "cut", "producers": prods, "sink": {"us": rng.choice([0, 0, 20, 200])}, "script": script}


def gen_late(rng):
    """lines logged while ~Log is already waiting for the io thread (which is blocked in the sink on an earlier batch): the
    destructor's final queue swap has not happened yet, so these lines are accepted like any other and must be written"""
    np_ = rng.randint(1, 4)
    prods = []
    for p in range(np_):
        prods.append(body(rng, rng.randint(1, 6)) + [{"k": "bar", "i": 0}] + body(rng, rng.randint(1, 5)))
    script = [{"k": "close"}, {"k": "arrive", "i": 0}, {"k": "blocked", "ms": 400}, {"k": "shutdown_late", "i": 0}]
    return {"family": "late", "producers": prods, "sink": {"us": 0}, "script": script}


def gen(rng, tier):
    for _ in range({"quick": 3, "thorough": 40, "search": 8}[tier]):
        sc = gen_late(rng)
        sc["jitter"] = rng.choice([0, 0, 2, 5])
        yield sc
    for _ in range({"quick": 12, "thorough": 120, "search": 30}[tier]):
        sc = gen_oversize(rng)
        sc["jitter"] = rng.choice([0, 0, 2])
        yield sc
    for _ in range({"quick": 12, "thorough": 150, "search": 30}[tier]):
        sc = gen_rush(rng)
        sc["jitter"] = rng.choice([0, 0, 2, 5])
        yield sc
    for sc in _gen(rng, tier):
        # schedule widening inside the critical sections; has an effect only when the tree carries the trace hooks
        sc["jitter"] = rng.choice([0, 0, 2, 5, 20])
        # the kmsg descriptor may interrupt or shorten a write(2)
        if "kmsg" in _kinds(sc) and rng.random() < 0.5:
            # a short write splits a record into two write(2) calls: with two threads writing records at the same time the
            # halves can interleave on any descriptor, which no writer can prevent - only with a single kmsg-writing thread
            nkm = sum(1 for p in sc["producers"] if any(o["k"] == "kmsg" for o in p))
            sc["kmsg_io"] = rng.choice(["eintr", "short"]) if nkm == 1 else "eintr"
        yield sc


def _gen(rng, tier):
    n = {"quick": 3, "thorough": 24, "search": 4}[tier]
    plan = [("burst", 14), ("burstbig", 6), ("slow", 6), ("silence", 10), ("blocked", 22), ("small", 8), ("exact", 6), ("cut", 18)]
    if tier == "search":
        plan = [("blocked", 40), ("cut", 25), ("burstbig", 10), ("silence", 10), ("small", 10), ("exact", 20)]
    for fam, k in plan:
        for _ in range(k * n):
            if fam == "burst":
                yield gen_burst(rng)
            elif fam == "burstbig":
                yield gen_burst(rng, big=True)
            elif fam == "slow":
                yield gen_slow(rng)
            elif fam == "silence":
                yield gen_silence(rng)
            elif fam == "blocked":
                yield gen_blocked(rng)
            elif fam == "small":
                yield gen_blocked(rng, small_total=True)
            elif fam == "exact":
                yield gen_exact(rng)
            else:
                yield gen_cut(rng)


# ------------------------------------------------------------------------------------------------
def _kinds(s):
    return {o["k"] for p in s.get("producers", []) for o in p}


def nontrivial(s, t, v):
    if t.get("outcome") != "ok" or not v.get("delivered"):
        return False
    wide = len(s["producers"]) >= 2 or any(o["k"] == "close" for o in s.get("script", []))
    ks = _kinds(s)
    interesting = v.get("reported", 0) > 0 or v.get("worst_unwritten", 0) > 0 or ks & {"dis", "dislog", "mix", "kmsg"}
    return bool(wide and interesting)


def bucket(s, t, v):
    b = ["family:" + s.get("family", "corpus"), "producers:%d" % len(s.get("producers", []))]
    if t.get("outcome") != "ok":
        return b + ["outcome:" + str(t.get("outcome"))]
    b.append("hooks:%s" % ("on" if t.get("hooks") else "off"))
    b.append("drops:%s" % ("yes" if v.get("reported", 0) else "no"))
    w = v.get("worst_unwritten", 0)
    b.append("unwritten:%s" % ("0" if w == 0 else "<=256K" if w <= 262144 else "<=1MiB" if w <= MAXSIZE else "<=2MiB" if w <= 2 * MAXSIZE else ">2MiB"))
    if any(o["k"] == "shutdown" and o.get("open_after_us", 0) > 0 for o in s.get("script", [])):
        b.append("shutdown:sink-blocked")
    if _kinds(s) & {"dis", "dislog", "mix"}:
        b.append("silencing")
    if "kmsg" in _kinds(s):
        b.append("kmsg")
    for vv in v.get("variants", []):
        b.append("replay-accepts:" + vv)
    return b


def extra_coverage(results):
    lines = sum(v.get("delivered", 0) for _, _, v in results)
    exp = sum(v.get("expected", 0) for _, _, v in results)
    ev = sum(v.get("events", 0) for _, _, v in results)
    return {"lines_delivered": lines, "lines_logged": exp, "drops_reported": sum(v.get("reported", 0) for _, _, v in results),
            "max_unwritten_seen": max([v.get("worst_unwritten", 0) for _, _, v in results] or [0]),
            "hook_events_replayed": ev,
            "kmsg_writes_interrupted_or_short": sum(t.get("kmsg_faults", 0) for _, t, _ in results),
            "late_shutdown_scenarios": sum(1 for s, _, _ in results if s.get("family") == "late"),
            "late_shutdown_precondition_unmet": sum(1 for _, t, _ in results if t.get("late_precondition_unmet")),
            "linearisation_replay": "on (trace hooks present in the tree)" if ev else "off (no trace hooks in the tree: accepts = outside-visible model invariants only)"}


def shrink_candidates(s):
    prods = s["producers"]
    # drop a whole producer that has no barrier the script waits for alone
    if len(prods) > 1:
        for i in range(len(prods) - 1, 0, -1):
            yield dict(s, producers=prods[:i] + prods[i + 1:])
    # drop ops (never barriers), big chunks first
    for i, p in enumerate(prods):
        idx = [j for j, o in enumerate(p) if o["k"] != "bar"]
        for frac in (2, 4):
            step = max(1, len(idx) // frac)
            for a in range(0, len(idx), step):
                kill = set(idx[a:a + step])
                if kill and len(kill) < len(p):
                    yield dict(s, producers=prods[:i] + [[o for j, o in enumerate(p) if j not in kill]] + prods[i + 1:])
    # smaller lines
    for i, p in enumerate(prods):
        if any(o.get("n", 0) > 40 and o["k"] in ("log", "raw", "rush") for o in p):
            yield dict(s, producers=prods[:i] + [[dict(o, n=max(20, o["n"] // 2)) if o["k"] in ("log", "raw") and o.get("n", 0) > 40 else o for o in p]] + prods[i + 1:])
    sc = s.get("script", [])
    for j, o in enumerate(sc):
        if o["k"] in ("mark", "us", "budget", "blocked"):
            yield dict(s, script=sc[:j] + sc[j + 1:])
    if s.get("sink", {}).get("us"):
        yield dict(s, sink={"us": 0})

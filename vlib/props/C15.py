"""C15 - cgroup statistics equal the reference function of kernel files and tick history (engine h_fsread).

Scenario = initial cgroup tree + /proc files in the kernel's grammar, io device / coefficient
configuration, and a tick history; each tick = file operations before `Oomd::updateContext()` and a
sequence of operations inside the tick (accessor calls on the real CgroupContext, file rewrites).
"""
import json
import struct

PROP = "C15"
ENGINE = "fsread"
HARNESS = "h_fsread"
FLAVOUR = "asan"
OUTCOME_IN_MODEL = True   # the small crash stream: the driver decides (model predicts the crash)
RULE = ("trees of 1-9 cgroups (depth <= 3) with every control file drawn from the kernel's grammar (decimal int64 incl. "
        "0 / 2^63-1 / `max`, both PSI formats, memory.stat / cgroup.stat with shuffled and extra keys, io.stat with "
        "extra keys and unconfigured devices, cgroup.events, oom.group, the four xattrs, absent files), /proc/{swaps,"
        "vmstat,meminfo,pressure/*,sys/vm/swappiness}; random SSD/HDD device tables and coefficients (defaults and "
        "random doubles); histories of 1-6 ticks with rewrites, removal / re-creation under the same name, loss of "
        "cgroup.controllers between ticks; inside a tick every accessor is called (twice, with rewrites in between), "
        "or random subsets in random order; 4% of the worlds use a readdir without d_type; a separate small stream "
        "has one modelled crash point each. non-trivial = at least two ticks and >= 30 values checked against the "
        "stateless reference.")
ASSUMPTIONS = [
    "usage-like values (memory.current, swap.current, pgscan, io counters) < 2^56 so that the code's int64 sums cannot overflow (limits use the full int64 range)",
    "distinct directories have distinct inode numbers while either is held open (kernfs never reuses a cgroup id; the harness pins the inodes)",
    "IEEE double / float rounding is modelled by Lean's Float / Float32 (compared bit for bit), theorems are over Rat",
    "strtof is modelled on `digits[.digits]` only; exponents / hex / inf / nan are outside the kernel grammar",
]
TRUSTED = ["Lean Float/Float32 = IEEE binary64/binary32 of the C++ build (validated bit for bit by this run)",
           "glibc strtoll/strtoull/strtof/sscanf/getline (modelled, validated by this run)",
           "ext4 scratch tree instead of kernfs; readdir d_type stripped by interposition"]

ALL = ["id", "children", "current_usage", "swap_usage", "swap_max", "memory_low", "memory_min", "memory_high",
       "memory_high_tmp", "memory_max", "nr_dying_descendants", "is_populated", "kill_preference", "oom_group",
       "mem_pressure", "mem_pressure_some", "io_pressure", "io_pressure_some", "memory_stat", "io_stat",
       "effective_swap_max", "effective_swap_free", "effective_swap_util_pct", "memory_protection",
       "io_cost_cumulative", "pg_scan_cumulative", "average_usage", "io_cost_rate", "pg_scan_rate", "anon_usage",
       "file_usage", "shmem_usage", "effective_usage", "memory_growth"]
NAMES = ["a", "b", "c", "w", "sys", "x.slice", "y", "z-1"]
# names systemd really produces (escaped characters: a backslash) and other characters glob(3) gives a meaning to; a name is a
# name - no statistic may treat a sibling's name as a pattern
META_NAMES = ["dev-disk-by\\x2duuid.swap", "system-getty\\x2dtty.slice", "a*", "b?", "[c]", "w{1,2}", "y\\"]
DEVS = ["8:0", "8:16", "253:1", "259:0", "7:3"]
SSD = [1.21e-2, 6.25e-7, 1.07e-3, 2.61e-7, 2.37e-2, 9.10e-10]
HDD = [1.31e-3, 1.13e-7, 2.58e-1, 5.04e-7, 0.0, 0.0]
I64MAX = 2 ** 63 - 1


def bits(x):
    return struct.unpack("<Q", struct.pack("<d", x))[0]


# ---------------------------------------------------------------------------------------------
# values in the kernel's grammar
# ---------------------------------------------------------------------------------------------

def usage(rng):
    r = rng.random()
    if r < 0.12:
        return 0
    if r < 0.25:
        return rng.randrange(1, 5000)
    if r < 0.65:
        return 4096 * rng.randrange(1, 2 ** 22)
    if r < 0.9:
        return rng.randrange(2 ** 30, 2 ** 45)
    if r < 0.97:
        return rng.randrange(2 ** 45, 2 ** 53)
    return rng.randrange(2 ** 53, 2 ** 56)


def limit(rng, ref=None):
    r = rng.random()
    if r < 0.3:
        return "max"
    if r < 0.42:
        return 0
    if r < 0.5:
        return rng.choice([I64MAX, I64MAX - 1, 2 ** 62, 2 ** 63 - 4096])
    if ref is not None and r < 0.8:
        # around the usage, so that min / max / over-commit branches are all taken
        return max(0, ref + rng.choice([-1, 0, 1, -4096, 4096]) * rng.randrange(0, 3) + rng.randrange(-ref // 2 - 1, ref // 2 + 2))
    if r < 0.97:
        return usage(rng)
    return rng.randrange(0, 2 ** 63)


def psi_val(rng):
    r = rng.random()
    if r < 0.2:
        return "0.00"
    if r < 0.25:
        return "100.00"
    return "%d.%02d" % (rng.randrange(0, 100), rng.randrange(0, 100))


def psi_file(rng):
    r = rng.random()
    if r < 0.72:
        def total():
            return rng.choice([0, rng.randrange(0, 2 ** 40), rng.randrange(0, 2 ** 63), 2 ** 64 - 1]) if rng.random() < 0.2 else rng.randrange(0, 2 ** 36)
        return "some avg10=%s avg60=%s avg300=%s total=%d\nfull avg10=%s avg60=%s avg300=%s total=%d\n" % (
            psi_val(rng), psi_val(rng), psi_val(rng), total(), psi_val(rng), psi_val(rng), psi_val(rng), total())
    if r < 0.9:
        return "aggr %d\nsome %s %s %s\nfull %s %s %s\n" % (rng.randrange(0, 2 ** 40), psi_val(rng), psi_val(rng), psi_val(rng),
                                                        psi_val(rng), psi_val(rng), psi_val(rng))
    if r < 0.94:
        return ""                                   # empty file: PsiFormat::MISSING
    if r < 0.97:
        return "some avg10=0.00 avg60=0.00 avg300=0.00 total=0\n"   # only one line: INVALID
    return "full avg10=%s avg60=0.00 avg300=0.00 total=0\nsome avg10=0.00 avg60=0.00 avg300=0.00 total=0\n" % psi_val(rng)


STAT_KEYS = ["anon", "file", "kernel_stack", "slab", "sock", "shmem", "file_mapped", "file_dirty", "pgfault",
             "pgmajfault", "pgrefill", "pgscan", "pgsteal", "workingset_refault", "thp_fault_alloc"]


def stat_val(rng):
    r = rng.random()
    if r < 0.9:
        return usage(rng)
    if r < 0.97:
        return rng.randrange(0, 2 ** 63)
    return rng.choice([2 ** 64 - 1, 2 ** 63, 2 ** 63 + 5])


def memstat_file(rng, pgscan=None):
    keys = [k for k in STAT_KEYS if rng.random() < (0.93 if k == "pgscan" else 0.8)]   # old kernels: no pgscan
    if not keys:
        keys = ["anon"]
    rng.shuffle(keys)
    lines = []
    for k in keys:
        v = stat_val(rng)
        if k == "pgscan":
            v = pgscan if pgscan is not None else usage(rng)
        lines.append("%s %d" % (k, v))
        if rng.random() < 0.03:
            lines.append("%s %d" % (k, stat_val(rng) if k != "pgscan" else v))   # duplicate key: last one wins
    if rng.random() < 0.1:
        lines.insert(rng.randrange(len(lines) + 1), rng.choice(["", "garbage", "key notanumber", "  spaced   7", "x 12abc"]))
    return "\n".join(lines) + ("\n" if rng.random() < 0.95 else "")


def iostat_line(rng, dev, base=None):
    vals = [(b + rng.randrange(0, 2 ** 20) if base else (usage(rng) if rng.random() < 0.9 else rng.randrange(0, 2 ** 62))) for b in (base or [0] * 6)]
    line = "%s rbytes=%d wbytes=%d rios=%d wios=%d dbytes=%d dios=%d" % tuple([dev] + vals)
    if rng.random() < 0.15:
        line += rng.choice([" cost.usage=5 cost.wait=7", " ", " extra"])
    return line, vals


def iostat_file(rng):
    devs = [d for d in DEVS if rng.random() < 0.5]
    rng.shuffle(devs)
    lines = [iostat_line(rng, d)[0] for d in devs]
    r = rng.random()
    if r < 0.04 and lines:
        lines[rng.randrange(len(lines))] = "8:0 rbytes=1 wbytes=2 rios=3 wios=4"           # old kernels: no discard counters
    elif r < 0.06:
        lines.append(rng.choice(["8:0", "", "8:0 rbytes=", "x:y rbytes=1 wbytes=2 rios=3 wios=4 dbytes=5 dios=6"]))
    return "\n".join(lines) + ("\n" if lines else "")


def events_file(rng):
    lines = ["populated %d" % rng.randrange(2), "frozen %d" % rng.randrange(2)]
    if rng.random() < 0.3:
        lines.reverse()
    if rng.random() < 0.1:
        lines.insert(0, "oom_kill 3")
    r = rng.random()
    if r < 0.03:
        lines = [l for l in lines if not l.startswith("populated")]
    elif r < 0.05:
        lines = ["populated 2"] + lines[1:]
    return "\n".join(lines) + "\n"


def cgstat_file(rng):
    lines = ["nr_descendants %d" % rng.randrange(50), "nr_dying_descendants %d" % rng.choice([0, 0, 1, rng.randrange(1000)])]
    if rng.random() < 0.3:
        lines.reverse()
    if rng.random() < 0.1:
        lines = lines[:1] if lines[0].startswith("nr_desc") else lines[1:]
    return "\n".join(lines) + "\n"


def cg_files(rng):
    cur = usage(rng)
    f = {
        "cgroup.controllers": "cpuset cpu io memory pids\n",
        "memory.current": "%d\n" % cur,
        "memory.low": "%s\n" % limit(rng, cur),
        "memory.min": "%s\n" % limit(rng, cur),
        "memory.high": "%s\n" % limit(rng),
        "memory.max": "%s\n" % limit(rng),
        "memory.swap.current": "%d\n" % usage(rng),
        "memory.swap.max": "%s\n" % limit(rng, usage(rng)),
        "memory.pressure": psi_file(rng),
        "io.pressure": psi_file(rng),
        "memory.stat": memstat_file(rng),
        "io.stat": iostat_file(rng),
        "cgroup.events": events_file(rng),
        "cgroup.stat": cgstat_file(rng),
        "memory.oom.group": rng.choice(["0\n", "1\n", "1", "0\n"]),
    }
    if rng.random() < 0.35:
        f["memory.high.tmp"] = rng.choice(["max 0\n", "%d %d\n" % (usage(rng), rng.randrange(0, 10 ** 7)), "max\n", "5 6 7\n"])
    # the low / min mix that makes protection interesting: often no protection at all
    if rng.random() < 0.3:
        f["memory.low"] = "0\n"
    if rng.random() < 0.5:
        f["memory.min"] = "0\n"
    if rng.random() < 0.03:
        f[rng.choice(["memory.current", "memory.swap.current", "memory.low", "memory.stat", "io.stat", "cgroup.events"])] = ""   # empty file
    for k in list(f):
        if k != "cgroup.controllers" and rng.random() < 0.04:
            del f[k]
    if rng.random() < 0.04:
        del f["cgroup.controllers"]
    return f


def xattrs(rng):
    x = {}
    if rng.random() < 0.35:
        for n in ["trusted.oomd_prefer", "user.oomd_prefer", "trusted.oomd_avoid", "user.oomd_avoid"]:
            if rng.random() < 0.4:
                x[n] = rng.choice(["", "1"])
    return x


def node(rng, name, depth, budget):
    n = {"name": name, "files": cg_files(rng), "xattrs": xattrs(rng), "children": []}
    if depth < 3:
        k = rng.choice([0, 0, 1, 2, 3]) if depth else rng.choice([1, 2, 3, 4])
        pool = NAMES + META_NAMES if rng.random() < 0.3 else NAMES
        for nm in rng.sample(pool, k):
            if budget[0] <= 0:
                break
            budget[0] -= 1
            n["children"].append(node(rng, nm, depth + 1, budget))
    return n


def proc_swaps(rng):
    lines = ["Filename\t\t\t\tType\t\tSize\t\tUsed\t\tPriority"]
    for i in range(rng.choice([0, 1, 1, 2])):
        size = rng.randrange(0, 2 ** 36)
        lines.append("/dev/sd%c%d                               partition\t%d\t\t%d\t\t-%d" % (97 + i, i, size, rng.randrange(0, size + 1), 2 + i))
    return "\n".join(lines) + "\n"


def proc_vmstat(rng, pswpout):
    keys = [("nr_free_pages", rng.randrange(2 ** 30)), ("pswpin", rng.randrange(2 ** 40)), ("pswpout", pswpout),
            ("pgscan_kswapd", rng.randrange(2 ** 40))]
    rng.shuffle(keys)
    if rng.random() < 0.07:
        keys = [kv for kv in keys if kv[0] != "pswpout"]      # no swap accounting
    return "".join("%s %d\n" % kv for kv in keys)


def proc_meminfo(rng):
    tot = rng.randrange(1, 2 ** 34)
    lines = ["MemTotal:       %8d kB" % tot, "MemFree:        %8d kB" % rng.randrange(0, tot + 1),
             "MemAvailable:   %8d kB" % rng.randrange(0, tot + 1), "SwapTotal:\t%d kB" % rng.randrange(2 ** 30), "HugePages_Total:       0"]
    if rng.random() < 0.2:
        rng.shuffle(lines)
    if rng.random() < 0.05:
        lines = [l for l in lines if not l.startswith("MemFree")]
    return "\n".join(lines) + "\n"


def proc_files(rng, pswpout):
    p = {"swaps": proc_swaps(rng), "vmstat": proc_vmstat(rng, pswpout), "meminfo": proc_meminfo(rng),
         "sys_vm_swappiness": "%d\n" % rng.randrange(0, 201), "pressure_memory": psi_file(rng), "pressure_io": psi_file(rng)}
    if rng.random() < 0.15:
        del p["pressure_memory"]
        if rng.random() < 0.7:
            p["mempressure"] = psi_file(rng)
    for k in ["swaps", "vmstat", "meminfo", "sys_vm_swappiness", "pressure_io"]:
        if rng.random() < 0.04:
            del p[k]
    return p


def config(rng):
    devs = [[d, rng.choice(["ssd", "hdd"])] for d in DEVS if rng.random() < 0.45]
    if rng.random() < 0.1:
        devs.append(["08:0", "ssd"])     # never equals std::to_string(major) + ":" + std::to_string(minor)

    def co(default):
        r = rng.random()
        if r < 0.5:
            return default
        if r < 0.6:
            return [0.0] * 6
        return [rng.choice([0.0, 1.0, rng.random(), rng.random() * 1e-6, rng.uniform(0, 1e3), 10.0 ** rng.randrange(-12, 4) * rng.random()]) for _ in range(6)]
    return {"devs": devs, "ssd": [bits(x) for x in co(SSD)], "hdd": [bits(x) for x in co(HDD)], "dtype": True}


# ---------------------------------------------------------------------------------------------
# histories
# ---------------------------------------------------------------------------------------------

def all_paths(tree, prefix=""):
    out = [prefix]
    for ch in tree.get("children", []):
        out += all_paths(ch, (prefix + "/" if prefix else "") + ch["name"])
    return out


def find(tree, path):
    n = tree
    for c in [x for x in path.split("/") if x]:
        n = next((ch for ch in n.get("children", []) if ch["name"] == c), None)
        if n is None:
            return None
    return n


def rewrite_ops(rng, tree, paths, k):
    """file rewrites in the kernel's grammar on live cgroups; keeps the python copy of the tree in sync"""
    ops = []
    live = [p for p in paths if p and find(tree, p) is not None]
    for _ in range(k):
        if not live:
            break
        p = rng.choice(live)
        n = find(tree, p)
        fresh = cg_files(rng)
        name = rng.choice(list(fresh.keys()) + ["memory.current"] * 6 + ["memory.stat", "io.stat", "memory.low", "memory.min", "memory.swap.current"] * 2)
        if name == "cgroup.controllers":
            continue
        if name not in fresh or rng.random() < 0.05:
            ops.append({"op": "unlink", "path": p + "/" + name})
            n["files"].pop(name, None)
        else:
            ops.append({"op": "write", "path": p + "/" + name, "data": fresh[name]})
            n["files"][name] = fresh[name]
    return ops


def recreate_ops(rng, tree):
    """remove a cgroup (with its subtree) and, mostly, re-create it under the same name"""
    ops = []
    live = [p for p in all_paths(tree) if p]
    if not live:
        return ops
    p = rng.choice(live)
    parent = find(tree, "/".join(p.split("/")[:-1]))
    old = find(tree, p)
    parent["children"] = [c for c in parent["children"] if c is not old]
    ops.append({"op": "rmdir", "path": p})
    if rng.random() < 0.75:
        new = node(rng, old["name"], 3 if rng.random() < 0.6 else 2, [2])
        if rng.random() < 0.3:
            new["files"] = dict(old["files"])       # identical content, different cgroup
        parent["children"].append(new)
        ops.append({"op": "mkdir", "path": p, "node": new})
    return ops


def between_ticks(rng, tree, st):
    ops = []
    paths = all_paths(tree)
    ops += rewrite_ops(rng, tree, paths, rng.randrange(0, 8))
    if rng.random() < 0.45:
        ops += recreate_ops(rng, tree)
    paths = all_paths(tree)
    live = [p for p in paths if p]
    if live and rng.random() < 0.08:
        p = rng.choice(live)
        ops.append({"op": "unlink", "path": p + "/cgroup.controllers"})
        find(tree, p)["files"].pop("cgroup.controllers", None)
    if live and rng.random() < 0.2:
        p = rng.choice(live)
        nm = rng.choice(["trusted.oomd_prefer", "user.oomd_prefer", "trusted.oomd_avoid", "user.oomd_avoid"])
        ops.append({"op": rng.choice(["setx", "rmx"]), "path": p, "name": nm, "val": ""})
    # /proc
    if rng.random() < 0.8:
        st["pswpout"] += rng.choice([0, 0, rng.randrange(0, 1000), rng.randrange(0, 2 ** 30)])
        ops.append({"op": "proc", "name": "vmstat", "data": proc_vmstat(rng, st["pswpout"]) if rng.random() < 0.93 else None})
    if rng.random() < 0.3:
        ops.append({"op": "proc", "name": "swaps", "data": proc_swaps(rng)})
    if rng.random() < 0.3:
        ops.append({"op": "proc", "name": "meminfo", "data": proc_meminfo(rng)})
    if rng.random() < 0.15:
        ops.append({"op": "proc", "name": rng.choice(["pressure_memory", "pressure_io", "mempressure"]), "data": psi_file(rng) if rng.random() < 0.8 else None})
    return ops


def pick_cgs(rng, tree, k=None):
    paths = all_paths(tree)
    extra = []
    if rng.random() < 0.25:
        extra = [rng.choice(["nope", "a/nope", "a/b/c/d"])]
    if k is None:
        sel = paths
    else:
        sel = rng.sample(paths, min(k, len(paths)))
    sel = sel + extra
    rng.shuffle(sel)
    return sel


def acc_subset(rng):
    r = rng.random()
    if r < 0.25:
        accs = list(ALL)
    elif r < 0.5:
        accs = rng.sample(ALL, rng.randrange(1, 8))
    elif r < 0.75:
        accs = rng.sample(["average_usage", "memory_growth", "io_cost_rate", "io_cost_cumulative", "pg_scan_rate", "pg_scan_cumulative",
                           "current_usage", "memory_protection", "effective_usage"], rng.randrange(1, 6))
    else:
        accs = rng.sample(["memory_protection", "effective_swap_max", "effective_swap_free", "effective_swap_util_pct",
                           "children", "id", "effective_usage", "swap_max", "memory_low"], rng.randrange(1, 6))
    rng.shuffle(accs)
    accs = [("effective_usage/%d/%d" % (rng.randrange(0, 4), rng.randrange(-1000, 1000)) if a == "effective_usage" and rng.random() < 0.3 else a) for a in accs]
    if rng.random() < 0.1 and accs:
        accs.append(accs[0])        # same accessor twice in a row
    return accs


def tick_ops(rng, tree, mode):
    ops = []
    if rng.random() < 0.5:
        ops.append({"op": "sys"})
    if mode == "twice":
        cgs = pick_cgs(rng, tree)
        ops += [{"op": "get", "cg": c, "f": list(ALL)} for c in cgs]
        ops += rewrite_ops(rng, tree, all_paths(tree), rng.randrange(1, 10))
        if rng.random() < 0.2:
            ops.append({"op": "proc", "name": "meminfo", "data": proc_meminfo(rng)})
        ops += [{"op": "get", "cg": c, "f": list(ALL)} for c in cgs]
    else:
        for _ in range(rng.randrange(1, 9)):
            r = rng.random()
            if r < 0.8:
                for c in pick_cgs(rng, tree, rng.randrange(1, 4)):
                    ops.append({"op": "get", "cg": c, "f": acc_subset(rng)})
            elif r < 0.9:
                ops.append({"op": "kids", "cg": rng.choice(all_paths(tree))})
            else:
                ops.append({"op": "list"})
            if mode == "partial" and rng.random() < 0.3:
                ops += rewrite_ops(rng, tree, all_paths(tree), rng.randrange(1, 4))
            if mode == "partial" and rng.random() < 0.06:
                ops += recreate_ops(rng, tree)          # a cgroup vanishes / is replaced while contexts hold it
    if rng.random() < 0.3:
        ops.append({"op": "list"})
    return ops


def scenario(rng, mode=None, nticks=None, dtype=True):
    budget = [rng.choice([1, 2, 4, 6, 8])]
    tree = node(rng, "", 0, budget)
    tree["files"] = {"cgroup.controllers": "cpuset cpu io memory pids\n"} if rng.random() < 0.97 else {}
    if rng.random() < 0.2:
        tree["files"]["cgroup.stat"] = cgstat_file(rng)
    tree["xattrs"] = {}
    st = {"pswpout": rng.randrange(0, 2 ** 40)}
    sc = {"kind": "hist", "cfg": config(rng), "proc": proc_files(rng, st["pswpout"]), "tree": json.loads(json.dumps(tree)), "ticks": []}
    sc["cfg"]["dtype"] = dtype
    mode = mode or rng.choice(["twice", "partial", "clean", "clean"])
    sc["mode"] = mode
    for i in range(nticks or rng.choice([1, 2, 2, 3, 3, 4, 6])):
        pre = between_ticks(rng, tree, st) if i else []
        sc["ticks"].append({"pre": pre, "ops": tick_ops(rng, tree, mode)})
    return sc


# ---------------------------------------------------------------------------------------------
# the separate crash stream (C10's crash points, one per scenario)
# ---------------------------------------------------------------------------------------------

def crash_scenarios():
    base = {"cgroup.controllers": "memory\n", "memory.current": "1\n", "memory.stat": "anon 1\npgscan 2\n",
            "memory.swap.current": "0\n", "memory.pressure": "some avg10=0.00 avg60=0.00 avg300=0.00 total=0\nfull avg10=0.00 avg60=0.00 avg300=0.00 total=0\n"}
    vm = "pswpout 5\n"
    cases = [
        ("memory.current", "", "current_usage", None),
        ("memory.current", "abc\n", "current_usage", None),
        ("memory.current", "99999999999999999999\n", "current_usage", None),
        ("memory.swap.current", "", "swap_usage", None),
        ("memory.stat", "anon 1\n", "pg_scan_cumulative", None),
        ("memory.stat", "anon 1\n", "pg_scan_rate", None),
        ("memory.pressure", "some avg10=0.00\nfull avg10=0.00\n", "mem_pressure", None),
        ("memory.pressure", "some\nfull\n", "mem_pressure_some", None),
        ("memory.pressure", "some avg10 avg60=0.00 avg300=0.00 total=0\nfull avg10=0.00 avg60=0.00 avg300=0.00 total=0\n", "mem_pressure_some", None),
        ("memory.low", "lots\n", "memory_low", None),
        (None, None, "current_usage", {"vmstat2": "nr_free_pages 5\n"}),
        (None, None, "current_usage", {"swaps": "Filename\n/dev/sda partition 5 6 7\n"}),
        (None, None, "current_usage", {"vmstat": "pswpout x\n"}),
    ]
    out = []
    for (fname, content, acc, procmod) in cases:
        files = dict(base)
        if fname:
            files[fname] = content
        proc = {"vmstat": vm, "swaps": "Filename\n", "meminfo": "MemTotal: 5 kB\nMemFree: 1 kB\n", "sys_vm_swappiness": "60\n"}
        pre2 = []
        if procmod:
            for k, v in procmod.items():
                if k == "vmstat2":
                    pre2.append({"op": "proc", "name": "vmstat", "data": v})
                else:
                    proc[k] = v
        out.append({"kind": "crash", "mode": "crash", "cfg": {"devs": [], "ssd": [bits(x) for x in SSD], "hdd": [bits(x) for x in HDD], "dtype": True},
                    "proc": proc, "tree": {"name": "", "files": {"cgroup.controllers": "memory\n"},
                                           "children": [{"name": "a", "files": files, "children": []}]},
                    "ticks": [{"pre": [], "ops": [{"op": "get", "cg": "a", "f": ["memory_max", acc]}]},
                              {"pre": pre2, "ops": [{"op": "get", "cg": "a", "f": [acc]}]}]})
    return out


def gen(rng, tier):
    n = {"quick": 3000, "thorough": 60000, "search": 9000}[tier]
    if tier != "search":
        for s in crash_scenarios():
            yield s
    for i in range(n):
        yield scenario(rng, dtype=(rng.random() >= 0.04))


# ---------------------------------------------------------------------------------------------
# reporting hooks
# ---------------------------------------------------------------------------------------------

def nontrivial(s, t, v):
    return s.get("kind") == "hist" and len(s["ticks"]) >= 2 and v.get("checked", 0) >= 30


def bucket(s, t, v):
    b = ["mode:" + s.get("mode", "?"), "ticks:%d" % len(s["ticks"]), "dtype:%s" % s["cfg"].get("dtype", True)]
    if any(o["op"] == "rmdir" for tk in s["ticks"] for o in tk["pre"]):
        b.append("recreate")
    if v.get("temporal_checked", 0) > 0:
        b.append("temporal-reference-checked")
    if v.get("model_crash"):
        b.append("crash-point:" + str(v["model_crash"]).split(":")[0])
    return b


def classify(s, t, v):
    if v.get("class"):
        return v["class"]
    oc = t.get("outcome", "")
    if oc and oc != "ok":
        return "outcome:" + oc
    return (v.get("violated") or ["?"])[0]


def shrink_candidates(s):
    ticks = s["ticks"]
    # fewer ticks (from the end), fewer ops, fewer accessors, fewer pre ops, smaller tree
    if len(ticks) > 1:
        yield dict(s, ticks=ticks[:-1])
    for ti, tk in enumerate(ticks):
        for oi in range(len(tk["ops"])):
            nt = list(ticks)
            nt[ti] = dict(tk, ops=tk["ops"][:oi] + tk["ops"][oi + 1:])
            yield dict(s, ticks=nt)
        for oi in range(len(tk["pre"])):
            nt = list(ticks)
            nt[ti] = dict(tk, pre=tk["pre"][:oi] + tk["pre"][oi + 1:])
            yield dict(s, ticks=nt)
    for ti, tk in enumerate(ticks):
        for oi, op in enumerate(tk["ops"]):
            if op["op"] == "get" and len(op["f"]) > 1:
                for half in (op["f"][:len(op["f"]) // 2], op["f"][len(op["f"]) // 2:]):
                    nt = list(ticks)
                    ops = list(tk["ops"])
                    ops[oi] = dict(op, f=half)
                    nt[ti] = dict(tk, ops=ops)
                    yield dict(s, ticks=nt)

    def prune(n):
        for i in range(len(n.get("children", []))):
            yield dict(n, children=n["children"][:i] + n["children"][i + 1:])
        for i, ch in enumerate(n.get("children", [])):
            for c2 in prune(ch):
                yield dict(n, children=n["children"][:i] + [c2] + n["children"][i + 1:])
        for k in list(n.get("files", {})):
            if k != "cgroup.controllers":
                yield dict(n, files={a: b for a, b in n["files"].items() if a != k})
    for t2 in prune(s["tree"]):
        yield dict(s, tree=t2)
    for k in list(s.get("proc", {})):
        yield dict(s, proc={a: b for a, b in s["proc"].items() if a != k})


def extra_coverage(results):
    checked = sum(v.get("checked", 0) for _, _, v in results)
    temporal = sum(v.get("temporal_checked", 0) for _, _, v in results)
    calls = sum(len(o.get("f", [])) for s, _, _ in results for tk in s["ticks"] for o in tk["ops"] if o["op"] == "get")
    crash = sum(1 for _, _, v in results if v.get("model_crash"))
    rfc = sum(v.get("rat_float_compared", 0) for _, _, v in results)
    rfd = sum(v.get("rat_float_differ", 0) for _, _, v in results)
    return {"accessor_calls_compared_with_model": calls, "values_checked_against_reference": checked,
            "temporal_values_checked_against_reference": temporal, "crash_point_scenarios": crash,
            "rat_vs_float": {"integer_results_compared": rfc, "exact_arithmetic_differs": rfd,
                             "note": "memory_protection / average_usage / effective_usage: the model run with Rat against the run with Float (= the C++ doubles)"}}

"""C04 - dry run (engine h_kill, shared kill model): every scenario is executed dry and wet on fresh worlds."""
from . import _kill
from ._kill import ENGINE, HARNESS, FLAVOUR, ASSUMPTIONS, TRUSTED, classify, bucket, shrink_candidates, extra_coverage  # noqa: F401

PROP = "C04"
RULE = ("the C01 scenario space, each scenario executed twice on identical fresh worlds (dry=true, dry=false), plus "
        "systemd_restart with stubbed sd-bus (ok / failing). non-trivial = the wet run produced at least one effect "
        "event (signal, xattr, control-file write, D-Bus call)")


def gen(rng, tier):
    return _kill.gen(rng, tier, PROP, [("base", 85), ("restart", 15)])


def nontrivial(s, t, v):
    runs = t.get("runs", [])
    if len(runs) < 2:
        return False
    return any(e["ev"] in ("kill", "setxattr", "write", "dbus") for tk in runs[1].get("ticks", []) for e in tk.get("events", []))


# ---- dry run with prekill hooks configured: decided on the hook engine (see vlib/props/_hookpass.py) ----------------------

def _more_dry(rng, s):
    if rng.random() < 0.6:
        s["cfg"]["args"]["dry"] = "true"


def run(tier, seed, replay=None):
    import sys
    from . import _hookpass

    def cov(res):
        return {"hookdry_pass_dry_scenarios": sum(1 for s, t, v in res if s["cfg"]["args"].get("dry") == "true")}
    return _hookpass.run(sys.modules[__name__], tier, seed, replay, "C04.", "hookdry",
                         "dry pass (kill plugins with scripted prekill hooks, h_hook): the C07 scenario space with dry=true in 60% of "
                         "the scenarios; clause: a dry plugin produces no signal, xattr write, control-file write, pidfd / "
                         "process_mrelease call and no oomd.kills increment on any tick of a kill cycle a hook defers",
                         tweak=_more_dry, extra_cov=cov)

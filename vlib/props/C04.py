"""C04 - dry run (engine h_kill, shared kill model): every scenario is executed dry and wet on fresh worlds."""
from . import _kill
from ._kill import ENGINE, HARNESS, FLAVOUR, ASSUMPTIONS, TRUSTED, classify, bucket, shrink_candidates, extra_coverage  # noqa: F401

PROP = "C04"
RULE = ("the C01 scenario space, each scenario executed twice on identical fresh worlds (dry=true, dry=false), plus "
        "systemd_restart with stubbed sd-bus (ok / failing). non-trivial = the wet run produced at least one effect "
        "event (signal, xattr, control-file write, D-Bus call)")


def gen(rng, tier):
    return _kill.gen(rng, tier, PROP, [("base", 85), ("restart", 15)])


def nontrivial(s, t, v):
    runs = t.get("runs", [])
    if len(runs) < 2:
        return False
    return any(e["ev"] in ("kill", "setxattr", "write", "dbus") for tk in runs[1].get("ticks", []) for e in tk.get("events", []))

"""C07 - prekill hooks: one hook per victim, finished or timed out before the kill (engine h_hook, model OomdModel.Hook).

A scenario is a kill-plugin configuration, a hook list built by drop-in style operations on a real Engine::Engine, per-invocation
scripts (how many didFinish() calls answer false, how long fire()/didFinish() take), a prekill_hook_timeout, and a list of
ticks (clock advance, tree delta).  The same plugin instance is run on every tick with the ActionContext the ruleset would
give it (fresh context + deadline when no chain is suspended, the saved one after ASYNC_PAUSED).
"""
import copy
import os

from . import _kill
from ._kill import walk, public

PROP = "C07"
ENGINE = "hook"
HARNESS = "h_hook"
FLAVOUR = "asan"

RULE = ("random cgroup trees (depth <= 3, branching <= 3) x kill_by_pressure / kill_by_swap_usage / kill_by_memory_size_or_growth "
        "x recursive / dry / always_continue / kernelkill x 0-5 scripted hooks in base + drop-in units (adds, re-adds, removals; "
        "patterns: exact, ancestor, descendant, `*` components, `/`, non-matching) x prekill_hook_timeout 0..5 s or none x "
        "per-invocation scripts (0..3 unfinished polls or never; fire()/didFinish() taking 0..3 s) x 1-6 ticks with clock advances "
        "chosen to land before / exactly on / after the deadline x time between chain fire and run() x the pending victim or a "
        "fallback candidate removed or re-created (new inode) at a random tick of the wait x kill outcome scripts that make kills "
        "fail (fallback to the next candidate). non-trivial = a hook fired and (the plugin waited at least one tick, or a second "
        "hook fired for a fallback candidate, or the hook timed out)")

ASSUMPTIONS = [
    "the tree does not change while one run() executes (cgroups appear / vanish / are re-created between ticks)",
    "a re-created cgroup has another inode number than the removed one (the harness keeps the old directory open; kernfs never "
    "re-uses the 64-bit node id)",
    "PrekillHook::fire returns a non-null invocation; hooks and invocations do not block (docs/prekill_hooks.md)",
    "the plugin instance is called on consecutive ticks with the ActionContext the ruleset keeps for a suspended chain (C06); "
    "a plugin destroyed while waiting (drop-in removal, shutdown) destroys its invocation without a kill - observed, not a clause",
    "ranking keys of kill_by_memory_size_or_growth are treated as unknown (any order inside a preference class accepted)",
    "cgroup.procs lines are positive decimal numbers here (C01 covers the rest); root cgroup is never a target",
    "with recursive=true the configured patterns do not resolve to a cgroup together with one of its ancestors",
]
TRUSTED = ["harness/hook_interpose.h (kill_interpose.h + clock stamp on every event), harness/vclock.h (virtual CLOCK_MONOTONIC)",
           "tmpfs directories stand in for cgroupfs (inode = cgroup identity)"]

PLUGINS = ["kill_by_pressure"] * 5 + ["kill_by_swap_usage"] * 2 + ["kill_by_memory_size_or_growth"]


# ---- hooks -------------------------------------------------------------------------------------

def gen_pattern(rng, paths):
    """one hook pattern; chosen so that all three match cases and near misses occur"""
    if not paths or rng.random() < 0.08:
        return rng.choice(["/", "zz", "zz/*", "*/zz", "*"])
    p = rng.choice(paths).split("/")
    r = rng.random()
    if r < 0.25:
        q = list(p)                                  # exact
    elif r < 0.45:
        q = p[:rng.randint(1, len(p))]               # the victim is a descendant of the pattern
    elif r < 0.65:
        q = p + rng.sample(["x", "*", "y"], rng.randint(1, 2))   # the victim is an ancestor of what the pattern matches
    elif r < 0.8:
        q = list(p)
        q[rng.randrange(len(q))] = "*"
    elif r < 0.9:
        q = list(p)
        i = rng.randrange(len(q))
        q[i] = q[i] + rng.choice(["*", "x"]) if rng.random() < 0.5 else q[i][:1] + "*"   # `a*` is not a wildcard
    else:
        q = list(p)
        q[rng.randrange(len(q))] = rng.choice(["zz", "a", "b"])
    return "/".join(q)


def gen_hooks(rng, tree):
    paths = ["/".join(p) for p, _ in walk(tree)]
    n = rng.choice([0, 1, 1, 2, 2, 3, 4, 5])
    hooks = []
    for hid in range(n):
        pats = [gen_pattern(rng, paths) for _ in range(rng.choice([1, 1, 1, 2, 3]))]
        hooks.append({"hid": hid, "cgroup": ",".join(dict.fromkeys(pats))})
    rng.shuffle(hooks)
    ops = []
    nbase = rng.randint(0, len(hooks))
    ops.append({"op": "base", "hooks": hooks[:nbase]})
    rest = hooks[nbase:]
    tags = ["t1", "t2", "t3"]
    live = {}
    hid_next = n
    while rest:
        k = rng.randint(1, len(rest))
        tag = rng.choice(tags)
        ops.append({"op": "add", "tag": tag, "hooks": rest[:k]})
        live[tag] = True
        rest = rest[k:]
        if rng.random() < 0.2 and live:
            t = rng.choice(sorted(live))
            ops.append({"op": "remove", "tag": t})
            del live[t]
        if rng.random() < 0.15:
            # re-add of a tag with new hook objects: replaces the unit and moves it to the front
            t = rng.choice(tags)
            pats = [gen_pattern(rng, paths)]
            ops.append({"op": "add", "tag": t, "hooks": [{"hid": hid_next, "cgroup": pats[0]}]})
            hid_next += 1
            live[t] = True
    return ops


# ---- victim guess (only steers the generator) ---------------------------------------------------

def pref_of(n):
    xs = n.get("xattrs", {})
    if "trusted.oomd_prefer" in xs or "user.oomd_prefer" in xs:
        return 2
    if "trusted.oomd_avoid" in xs or "user.oomd_avoid" in xs:
        return 0
    return 1


def likely_order(tree, args):
    """candidate leaves in the order the plugin probably tries them (ties broken arbitrarily)"""
    roots = _kill.resolve_py(tree, args["cgroup"])
    by_path = {p: n for p, n in walk(tree)}
    rec = args.get("recursive") == "true"

    def leaves(p):
        n = by_path[p]
        if rec and n["sem"]["oom_group"] != 1 and n["children"]:
            kids = sorted(n["children"], key=lambda c: (-pref_of(c), -c["sem"]["key"]))
            out = []
            for c in kids:
                if c["sem"]["eligible"]:
                    out += leaves(p + (c["name"],))
            return out
        if n["sem"]["populated"] == 0:
            return []
        return [p]
    rs = sorted([r for r in roots if by_path[r]["sem"]["eligible"]], key=lambda p: (-pref_of(by_path[p]), -by_path[p]["sem"]["key"]))
    out = []
    for r in rs:
        out += leaves(r)
    return out


def renumber(ids, node):
    node["id"] = ids.cg()
    for c in node["children"]:
        renumber(ids, c)


def mutate(rng, ids, tree, plugin, args, targets):
    """next tick's (delta, tree).  targets: paths (tuples) the generator wants to hit (pending victim / fallback)"""
    t = copy.deepcopy(tree)
    delta = {"rm": [], "mk": [], "write": {}, "setx": [], "rmx": [], "procs": {}}
    r = rng.random()
    nodes = [p for p, _ in walk(t) if len(p) > 1]
    if r < 0.45 or not nodes:
        return delta, t
    if r < 0.8 and targets:
        path = rng.choice(targets[:2]) if rng.random() < 0.8 else rng.choice(targets)
        if rng.random() < 0.25 and len(path) > 2:
            path = path[:-1]                    # the victim's parent goes (and comes back)
    else:
        path = rng.choice(nodes)
    if len(path) < 2:
        return delta, t
    cur = t
    for c in path[:-1]:
        nxt = [x for x in cur["children"] if x["name"] == c]
        if not nxt:
            return delta, t
        cur = nxt[0]
    old = [x for x in cur["children"] if x["name"] == path[-1]]
    if not old:
        return delta, t
    old = old[0]
    rel = "/".join(path)
    cur["children"] = [x for x in cur["children"] if x is not old]
    delta["rm"].append(rel)
    if rng.random() < 0.6:
        # re-created under the same path: same content (or a fresh node), another identity
        if rng.random() < 0.7:
            nn = copy.deepcopy(old)
            renumber(ids, nn)
        else:
            o = dict(depth=len(path) + 1, branch=2, p_empty=0.2, p_big=0.0, p_zero=0.0, keys=5, p_oomgroup=0.1, p_pref=0.2,
                     p_counters=0.0, p_nonint=0.0)
            nn = _kill.gen_node(rng, ids, old["name"], len(path), o)
            _kill.finish_tree({"children": [nn]}, plugin, args)
        cur["children"].append(nn)
        delta["mk"].append({"path": rel, "node": public(nn)})
    return delta, t


def gen_one(rng, tier):
    over = dict(depth=rng.choice([1, 2, 2, 3]), branch=rng.choice([1, 2, 3]), p_zero=0.0, p_nonint=0.0, p_counters=0.1,
                p_big=0.02, p_empty=rng.choice([0.0, 0.1, 0.3]), keys=rng.choice([3, 30, 30]))
    ids, tree = _kill.gen_world(rng, "quick", PROP, over)
    plugin = rng.choice(PLUGINS)
    args = {}
    if plugin == "kill_by_pressure":
        args["resource"] = rng.choice(["memory", "memory", "io"])
    if rng.random() < 0.6:
        args["recursive"] = rng.choice(["true", "true", "false"])
    if rng.random() < 0.12:
        args["always_continue"] = "true"
    if rng.random() < 0.15:
        args["kernelkill"] = "true"
    if rng.random() < 0.3:
        args["reap_memory"] = "false"
    if rng.random() < 0.3:
        args["post_action_delay"] = str(rng.choice([0, 1, 7]))
    if rng.random() < 0.08:
        args["dry"] = "true"
    _kill.finish_tree(tree, plugin, args)
    args["cgroup"] = _kill.gen_patterns(rng, tree)
    for _ in range(20):
        if not (args.get("recursive") == "true" and _kill.overlapping(tree, args["cgroup"])):
            break
        args["cgroup"] = _kill.gen_patterns(rng, tree)
    else:
        args["recursive"] = "false"
    timeout = rng.choice([0, 1, 2, 2, 3, 5, 5, None])
    sc = {"prop": PROP, "cfg": {"plugin": plugin, "args": args},
          "ctx": {"ruleset": "rs", "group": "dg", "timeout_s": timeout, "silence": rng.random() < 0.5,
                  "has_ruleset": rng.random() < 0.9},
          "hook_ops": gen_hooks(rng, tree),
          "invs": [{"polls": rng.choice([0, 0, 1, 1, 2, 3, -1]),
                    "fire_adv_ms": rng.choice([0, 0, 0, 500, 1000, 3000]),
                    "poll_adv_ms": rng.choice([0, 0, 0, 0, 500, 1000])} for _ in range(rng.randint(0, 6))],
          "kill": _kill.kill_script(rng, tree, rng.choice(["die", "mixed", "fail", "fail"])),
          "pidfd": rng.choice(["ok", "ok", "ESRCH"]), "mrelease": rng.choice(["ok", "ok", "ESRCH"])}
    if rng.random() < 0.05:
        sc["xfail"] = [rng.choice(["user.", "trusted."])]
    if "kernelkill" in args and rng.random() < 0.2:
        sc["wfail"] = [rng.choice(["cgroup.kill", "cgroup.freeze"])]
    nt = rng.choice([1, 2, 3, 3, 4, 5, 6])
    ticks = [{"advance_ms": 1000, "pre_adv_ms": rng.choice([0, 0, 0, 500, 1000, 2000]), "tree": public(tree)}]
    cur = tree
    for _ in range(nt - 1):
        try:
            targets = likely_order(cur, args)
        except Exception:
            targets = []
        delta, nxt = mutate(rng, ids, cur, plugin, args, targets)
        if args.get("recursive") == "true" and _kill.overlapping(nxt, args["cgroup"]):
            delta, nxt = {"rm": [], "mk": []}, cur
        cur = nxt
        ticks.append({"advance_ms": rng.choice([0, 500, 1000, 1000, 1000, 2000, 3000]),
                      "pre_adv_ms": rng.choice([0, 0, 0, 500, 1000]), "delta": delta, "tree": public(cur)})
        for k, v in _kill.kill_script(rng, cur, "mixed").items():
            sc["kill"].setdefault(k, v)
    sc["ticks"] = ticks
    return sc


BUDGET = {"quick": 8000, "thorough": 80000, "search": 12000}


def gen(rng, tier):
    for _ in range(BUDGET[tier]):
        yield gen_one(rng, tier)


# ---- reading traces -----------------------------------------------------------------------------

def tick_events(t):
    for r in t.get("runs", []):
        for i, tk in enumerate(r.get("ticks", [])):
            yield i, tk


def nontrivial(s, t, v):
    fires = 0
    waited = False
    timed_out = False
    for _, tk in tick_events(t):
        evs = tk.get("events", [])
        fires += sum(1 for e in evs if e["ev"] == "hook_fire")
        if tk.get("ret") == "ASYNC_PAUSED":
            waited = True
        dl = tk.get("deadline")
        if dl is not None and any(e["ev"] == "hook_poll" and not e["finished"] and e["now"] > dl for e in evs):
            timed_out = True
    return fires >= 1 and (waited or fires >= 2 or timed_out)


def classify(s, t, v):
    oc = t.get("outcome", "ok")
    if oc not in ("ok", "exit0"):
        return "outcome:" + oc
    if v.get("class"):
        return v["class"]
    return (v.get("violated") or ["?"])[0]


def bucket(s, t, v):
    b = ["plugin:" + s["cfg"]["plugin"], "ticks:%d" % len(s["ticks"]),
         "timeout:%s" % s["ctx"]["timeout_s"], "hooks:%d" % sum(len(o.get("hooks", [])) for o in s["hook_ops"])]
    for k in ("recursive", "kernelkill", "always_continue", "dry"):
        if s["cfg"]["args"].get(k) == "true":
            b.append("arg:" + k)
    fires = polls = destroys = attempts = 0
    for _, tk in tick_events(t):
        evs = tk.get("events", [])
        fires += sum(1 for e in evs if e["ev"] == "hook_fire")
        polls += sum(1 for e in evs if e["ev"] == "hook_poll")
        destroys += sum(1 for e in evs if e["ev"] == "hook_destroy")
        attempts += len({e["val"] for e in evs if e["ev"] == "setxattr" and e["name"].endswith("kill_uuid")})
        b.append("ret:" + tk.get("ret", "?"))
    b.append("fires:%s" % (fires if fires < 3 else "3+"))
    b.append("attempts:%s" % (attempts if attempts < 3 else "3+"))
    for k in v.get("tags", []):
        b.append("tag:" + k)
    if not v.get("accepts", True):
        b.append("not-accepted")
    return b


def shrink_candidates(s):
    if len(s["ticks"]) > 1:
        yield dict(s, ticks=s["ticks"][:-1])
    ops = s["hook_ops"]
    for i in range(len(ops)):
        if ops[i]["op"] != "base" or ops[i]["hooks"]:
            if ops[i]["op"] == "base":
                yield dict(s, hook_ops=ops[:i] + [dict(ops[i], hooks=[])] + ops[i + 1:])
            else:
                yield dict(s, hook_ops=ops[:i] + ops[i + 1:])
    for i, o in enumerate(ops):
        hs = o.get("hooks", [])
        if len(hs) > 1:
            for j in range(len(hs)):
                yield dict(s, hook_ops=ops[:i] + [dict(o, hooks=hs[:j] + hs[j + 1:])] + ops[i + 1:])
    if s.get("invs"):
        yield dict(s, invs=s["invs"][:-1])
        yield dict(s, invs=[dict(i, fire_adv_ms=0, poll_adv_ms=0) for i in s["invs"]])
    if any(tk.get("pre_adv_ms") for tk in s["ticks"]):
        yield dict(s, ticks=[dict(tk, pre_adv_ms=0) for tk in s["ticks"]])
    for k in ("xfail", "wfail"):
        if s.get(k):
            yield {kk: vv for kk, vv in s.items() if kk != k}
    if s.get("kill"):
        yield dict(s, kill={})
    a = s["cfg"]["args"]
    for k in ("always_continue", "kernelkill", "reap_memory", "post_action_delay", "dry"):
        if k in a:
            yield dict(s, cfg=dict(s["cfg"], args={kk: vv for kk, vv in a.items() if kk != k}))
    # drop a subtree that no delta mentions
    if all(not (tk.get("delta", {}).get("rm") or tk.get("delta", {}).get("mk")) for tk in s["ticks"]):
        tree = s["ticks"][0]["tree"]
        for path, _ in list(walk(tree)):
            def drop(tr):
                t2 = copy.deepcopy(tr)
                cur = t2
                for c in path[:-1]:
                    cur = [x for x in cur["children"] if x["name"] == c][0]
                cur["children"] = [x for x in cur["children"] if x["name"] != path[-1]]
                return t2
            try:
                yield dict(s, ticks=[dict(tk, tree=drop(tk["tree"])) for tk in s["ticks"]])
            except Exception:
                pass


def extra_coverage(results):
    out = {"hook_fires": 0, "ticks_waited": 0, "timeouts": 0, "victim_gone_or_recreated": 0, "fallback_fires": 0,
           "fires_not_first_in_list": 0, "exact_deadline_readings": 0}
    for s, t, v in results:
        for k in out:
            out[k] += v.get("cov", {}).get(k, 0)
    return out


# ---- the deadline is fixed when the chain fires: checked on the real Ruleset ---------------------------------
#
# The hook model (and h_hook) hand run() the ActionContext that the ruleset keeps for a suspended chain (theorems
# C07.deadline_fixed_at_chain_fire / first_deadline are about that hand-over).  That the real Ruleset does hand the *same*
# deadline to a resumed action - on ticks where a detector group fires again as well as on quiet ones - and computes a fresh
# chain's deadline as (clock reading when the group fired) + prekill_hook_timeout is decided here, on the real
# ConfigCompiler + Engine + Ruleset driven by scripted plugins (engine h_engine, driver drv_engine, clauses C07.deadline_*).

def gen_deadline(rng, tier):
    from . import _engine as E
    n = {"quick": 600, "thorough": 12000, "search": 3000}[tier]
    for _ in range(n):
        rss = E.mk_rulesets(rng, nrs=rng.choice([1, 1, 2, 3]))
        for r in rss:
            r["hook_timeout"] = rng.choice(["", "0", "1", "3", "5", "7"])
        # many ASYNC_PAUSED answers (a plugin waiting for its hook), detectors that keep firing while it waits
        pa = rng.choice([0.3, 0.5, 0.7])
        ps = rng.choice([0.05, 0.25, 0.5])
        ticks = [E.mk_tick(rng, rss, p_stop_det=ps, p_async_act=pa) for _ in range(rng.randint(3, 12))]
        yield {"prop": PROP, "rulesets": rss, "ticks": ticks}


def deadline_pass(tier, seed, only=None):
    """returns (violations [(class, replay path)], coverage dict)"""
    import random
    from . import _engine as E
    from .. import core
    if only is not None:
        scs = only
    else:
        esc = tier == "quick" and core.changed_sources() and not os.environ.get("VERIF_NO_ESCALATION")
        scs = list(gen_deadline(random.Random(seed * 7907 + 13), "search" if esc else tier))
    viol, cov, res = core.extra_pass(PROP, "engine", "h_engine", "asan", scs, tier, seed,
                                     want=lambda c: c.startswith("C07.") or c.startswith("trace"),
                                     shrink_candidates=E.shrink_candidates, label="deadline")
    cov["deadline_pass_async_returns"] = sum(E.stats(s, t)[2] for s, t, v in res)
    return viol, cov


def run(tier, seed, replay=None):
    import json
    import sys
    from .. import core
    mod = sys.modules[__name__]
    def want(c):
        return c.startswith("C07.")
    if replay:
        rp = json.load(open(replay))
        scs = [rp["scenario"]] if "scenario" in rp else rp.get("scenarios", [])
        if rp.get("pass") == "percg":
            viol, _, _ = core.extra_pass(PROP, "rscgroup", "h_rscgroup", "asan", scs, tier, seed, want=want, label="percg")
            for c, p in viol:
                print("VIOLATION property=%s replay=%s" % (PROP, p))
            return 1 if viol else 0
        if scs and "rulesets" in scs[0]:
            viol, _ = deadline_pass(tier, seed, only=scs)
            for c, p in viol:
                print("VIOLATION property=%s replay=%s" % (PROP, p))
            return 1 if viol else 0
    rc = core.run_check(mod, tier, seed, replay)
    if replay:
        return rc
    viol, cov = deadline_pass(tier, seed)
    core.merge_extra_into_evidence(PROP, cov, len(viol),
                                   "deadline pass (real Ruleset, scripted plugins, h_engine): histories with 30-70% ASYNC_PAUSED "
                                   "action returns and detector groups firing again while a chain is suspended; clauses: a resumed "
                                   "action sees the deadline of the tick its chain fired; a fresh chain's deadline = reading at "
                                   "group fire + prekill_hook_timeout")
    # ruleset-cgroup rulesets: the per-cgroup instance carries its ruleset's prekill_hook_timeout (decided on C11's engine)
    import os
    import random
    from . import C11
    esc = tier == "quick" and core.changed_sources() and not os.environ.get("VERIF_NO_ESCALATION")
    rng2 = random.Random(seed * 8221 + 7)
    n2 = {"quick": 1000, "thorough": 10000, "search": 3000}["search" if esc else tier]
    scs2 = []
    for _ in range(n2):
        s2 = C11.mk_scenario(rng2, calm=rng2.random() < 0.7)
        s2["prop"] = PROP
        for r in s2["rulesets"]:
            r["hook_timeout"] = rng2.choice(["", "0", "1", "3", "5", "7", "30"])
        scs2.append(s2)
    viol2, cov2, _ = core.extra_pass(PROP, "rscgroup", "h_rscgroup", "asan", scs2, tier, seed, want=want,
                                     shrink_candidates=C11.shrink_candidates, label="percg")
    core.merge_extra_into_evidence(PROP, cov2, len(viol2),
                                   "per-cgroup pass (ruleset-cgroup rulesets on h_rscgroup, prekill_hook_timeout 0/1/3/5/7/30/default): "
                                   "a chain started in a per-cgroup instance carries the deadline group fire + the ruleset's time-out")
    viol = viol + viol2
    for c, p in viol:
        print("VIOLATION property=%s replay=%s" % (PROP, p))
    return 1 if (rc or viol) else 0

"""C08 - detectors decide by their documented predicate over the whole sample history (engine h_detect).

Scenario vocabulary: see the head of harness/h_detect.cpp.  Python only *generates inputs* (it steers
values towards thresholds and boundaries); every expected verdict comes from the Lean driver.
"""

PROP = "C08"
ENGINE = "detect"
HARNESS = "h_detect"
FLAVOUR = "asan"
CHUNK = 60

RULE = ("multi-tick histories (quick <= 12 ticks, thorough <= 40) of the seven real detector plugins on a scratch "
        "cgroup tree with a virtual monotonic clock: values at threshold / threshold +- 0.01 (+- 1 byte), clock steps of "
        "0 ns .. 30 s incl. duration*1e9 +- 1 ns, start of the clock a few seconds after 'boot' or late, cgroups and "
        "files appearing and disappearing (also re-created directories), 1-3 patterns with wildcards, ties of the "
        "weighted pressure score, both resources, durations 0..30 (rarely negative), memory thresholds as N / N% / "
        "N[KMGT] components, persistent (refreshed) and fresh OomdContext. non-trivial = at least one CONTINUE and one "
        "STOP in a history of >= 2 ticks")
ASSUMPTIONS = [
    "clock readings are > 0 and non-decreasing (steady_clock)",
    "PSI averages <= 100000.00 and |threshold| < 2^24 so that float comparisons decide like the exact ones",
    "swap_free: total/used are multiples of 1024, used <= total, 0 <= threshold_pct, total*pct < 2^64",
    "memory_above thresholds restricted to N, N%, integer N[KMGT] components (the parser is C12's subject)",
    "cgroup files are well-formed or absent (malformed / empty files are C10's subject); the root cgroup is not watched",
    "swap_free reads SystemContext fields set by the harness (Oomd::updateContext's /proc parsing is outside C08)",
]
TRUSTED = ["harness renders tick values into kernel file formats (memory.pressure, memory.stat, cgroup.stat ...)",
           "glob(3) as modelled in OomdModel.Path (C16)",
           "Float32 arithmetic of Lean mirrors C++ float for the fast-fall product (tested, not proved)"]

S = 10 ** 9

POOL = ["w", "w/a", "w/b", "w/ab", "w/c", "sys", "sys/x", "w/a/k", "w/b/k", "q"]
PATTERNS = ["w/*", "w/a", "w/a*", "w/?", "w/b", "sys", "sys/*", "*/x", "w/*/k", "*", "nope", "w/zz*", "w/c", "q", "?"]


def parents(p):
    parts = p.split("/")
    return ["/".join(parts[:i]) for i in range(1, len(parts))]


def pick_patterns(rng):
    n = rng.choice([1, 1, 1, 2, 2, 3])
    return ",".join(rng.sample(PATTERNS, n))


def clock_seq(rng, n, dur):
    """irregular, non-decreasing, positive"""
    r = rng.random()
    if r < 0.35:
        t = rng.choice([1, 2, 5, 7, 10, 29]) * S + rng.choice([0, 0, 1, 999999999, 500000000])
    elif r < 0.4:
        t = rng.randint(1, 1000)           # nanoseconds after the epoch
    else:
        t = rng.choice([1000, 1000, 86400, 4000000]) * S + rng.choice([0, 0, 123456789])
    out = []
    d = max(dur, 0)
    for _ in range(n):
        out.append(t)
        k = rng.random()
        if k < 0.08:
            step = 0
        elif k < 0.3:
            step = rng.choice([1, 300000000, 999999999, S, S + 1, 2 * S, 2500000000])
        elif k < 0.55:
            step = rng.choice([d * S - 1, d * S, d * S + 1, (d + 1) * S - 1, (d + 1) * S, (d + 1) * S + 1, d * S // 2])
        elif k < 0.9:
            step = rng.choice([1, 2, 3, 5, 7]) * S + rng.choice([0, 0, 1, 999999999, 400000000])
        else:
            step = rng.choice([30, 61, 600]) * S
        t += max(step, 0)
    return out


def presence_seq(rng, n):
    """which pool cgroups exist per tick (parents always with their children)"""
    base = set(rng.sample(POOL, rng.randint(1, 6)))
    out = []
    cur = set(base)
    for _ in range(n):
        if rng.random() < 0.25:
            c = rng.choice(POOL)
            if c in cur:
                cur = {x for x in cur if not (x == c or x.startswith(c + "/"))}
            else:
                cur.add(c)
        if rng.random() < 0.04:
            cur = set()
        full = set(cur)
        for c in cur:
            full.update(parents(c))
        out.append(sorted(full))
    return out


def near(rng, center, deltas, lo=0, hi=None):
    v = center + rng.choice(deltas)
    if v < lo:
        v = lo
    if hi is not None and v > hi:
        v = hi
    return v


def psi_triple(rng, thr):
    c = max(thr, 0) * 100

    def one():
        r = rng.random()
        if r < 0.55:
            return near(rng, c, [-300, -50, -1, 0, 0, 1, 1, 2, 50, 300, 1500], 0, 10000 if rng.random() < 0.95 else 100000)
        if r < 0.7:
            return 0
        if r < 0.8:
            return 10000
        return rng.randint(0, 10000)
    return [one(), one(), one() if rng.random() < 0.5 else 0]


def tie_partner(rng, p):
    """a different triple with the same weighted score 3a+2b+c"""
    a, b, c = p
    for _ in range(8):
        k = rng.randint(1, 40)
        m = rng.choice([0, 1, 2])
        if m == 0 and a >= 2 * k:
            return [a - 2 * k, b + 3 * k, c]
        if m == 1 and b >= 3 * k:
            return [a + 2 * k, b - 3 * k, c]
        if m == 2 and a >= k:
            return [a - k, b, c + 3 * k]
    return [a, b, c]


def base_cg(path, rng, fresh_p=0.06):
    return {"path": path, "fresh": rng.random() < fresh_p, "mp": None, "iop": None, "cur": None, "stat": None,
            "dying": None}


def gen_pressure(rng, nt, rising):
    thr = rng.choice([0, 1, 5, 40, 60, 80, 80, 99, 100, -1] if rng.random() < 0.97 else [2 ** 20])
    dur = rng.choice([0, 0, 1, 2, 3, 3, 5, 10, 30, -1] if rng.random() < 0.97 else [100000])
    res = rng.choice(["memory", "io"])
    args = {"cgroup": pick_patterns(rng), "resource": res, "threshold": str(thr), "duration": str(dur)}
    ratio = None
    if rising:
        if rng.random() < 0.7:
            ratio = rng.choice(["0.85", "0", "0.5", "0.9", "1", "1.0", "0.999", "1.2", "0.857", "0.3333", "2"])
            args["fast_fall_ratio"] = ratio
    rnum = float(ratio) if ratio is not None else 0.85
    clocks = clock_seq(rng, nt, dur)
    pres = presence_seq(rng, nt)
    key = "mp" if res == "memory" else "iop"
    other = "iop" if res == "memory" else "mp"
    ticks = []
    last = {}
    sticky = rng.random() < 0.6      # values tend to stay on one side of the threshold for a while
    for i in range(nt):
        cgs = []
        for p in pres[i]:
            cg = base_cg(p, rng)
            if rng.random() < 0.9:
                if sticky and p in last and rng.random() < 0.7:
                    tr = list(last[p])
                    j = rng.randrange(3)
                    if rising and j == 0 and rng.random() < 0.6:
                        # fall by about the ratio
                        tr[0] = max(0, int(round(tr[0] * rnum)) + rng.choice([-2, -1, 0, 0, 1, 2]))
                    else:
                        tr[j] = max(0, tr[j] + rng.choice([-1, 0, 0, 1, 2, -2]))
                else:
                    tr = psi_triple(rng, thr)
                cg[key] = tr
                last[p] = tr
            if rng.random() < 0.3:
                cg[other] = psi_triple(rng, thr)     # the other resource must not matter
            if rng.random() < 0.5:
                cg["cur"] = rng.randint(0, 1 << 34)
            cgs.append(cg)
        # ties of the weighted score between two cgroups
        with_p = [c for c in cgs if c[key] is not None]
        if len(with_p) >= 2 and rng.random() < 0.2:
            a, b = rng.sample(with_p, 2)
            top = max(with_p, key=lambda c: 3 * c[key][0] + 2 * c[key][1] + c[key][2])
            if rng.random() < 0.7:
                a = top
            if a is not b:
                b[key] = tie_partner(rng, a[key])
                last[b["path"]] = b[key]
        ticks.append({"clock": clocks[i], "cgs": cgs})
    return {"det": "pressure_rising_beyond" if rising else "pressure_above", "args": args, "ticks": ticks}


def thr_string(rng):
    """(string, bytes, memtotal_kb)"""
    memtotal_kb = rng.choice([16384000, 1000, 8 * 1024 * 1024, 123457])
    total = memtotal_kb * 1024
    r = rng.random()
    if r < 0.2:
        n = rng.choice([0, 1, 2, 64, 1536])
        return str(n), n << 20, memtotal_kb
    if r < 0.45:
        n = rng.choice([0, 1, 10, 33, 50, 99, 100])
        return "%d%%" % n, total * n // 100, memtotal_kb
    if r < 0.6:
        n = rng.randint(1, 900)
        u = rng.choice("KMGkmg")
        return "%d%s" % (n, u), n << {"k": 10, "m": 20, "g": 30}[u.lower()], memtotal_kb
    if r < 0.8:
        a, b = rng.randint(1, 20), rng.randint(1, 1023)
        sep = rng.choice(["", " "])
        return "%dM%s%dK" % (a, sep, b), (a << 20) + (b << 10), memtotal_kb
    a, b, c = rng.randint(0, 3), rng.randint(0, 1023), rng.randint(0, 1023)
    return "%dG %dK %d" % (a, b, c), (a << 30) + (b << 10) + c, memtotal_kb


def gen_memory_above(rng, nt):
    ts, tb, mk = thr_string(rng)
    anon = rng.random() < 0.35
    dur = rng.choice([0, 0, 1, 2, 3, 5, 10, 30])
    args = {"cgroup": pick_patterns(rng), "duration": str(dur)}
    if anon:
        args["threshold_anon"] = ts
        if rng.random() < 0.5:
            args["threshold"] = "1"           # ignored when threshold_anon is given
    else:
        args["threshold"] = ts
    if rng.random() < 0.1:
        args["debug"] = "true"
    clocks = clock_seq(rng, nt, dur)
    pres = presence_seq(rng, nt)
    ticks = []
    last = {}
    for i in range(nt):
        cgs = []
        for p in pres[i]:
            cg = base_cg(p, rng)

            def val():
                if p in last and rng.random() < 0.6:
                    return max(0, last[p] + rng.choice([-4096, -1, 0, 0, 1, 4096]))
                r = rng.random()
                if r < 0.6:
                    return near(rng, tb, [-(1 << 20), -4096, -1, 0, 0, 1, 1, 4096, 1 << 20, 1 << 30], 0)
                if r < 0.75:
                    return 0
                return rng.randint(0, max(2 * tb, 1 << 20))
            v = val()
            last[p] = v
            if rng.random() < 0.9:
                cg["cur"] = v if not anon else rng.randint(0, max(2 * tb, 1 << 20))
            if rng.random() < 0.85:
                st = {}
                if rng.random() < 0.92:
                    st["anon"] = v if anon else rng.randint(0, max(2 * tb, 1 << 20))
                if rng.random() < 0.7:
                    st["pgscan"] = rng.randint(0, 1000)
                cg["stat"] = st
            cgs.append(cg)
        ticks.append({"clock": clocks[i], "cgs": cgs})
    return {"det": "memory_above", "args": args, "memtotal_kb": mk, "ticks": ticks}


def gen_reclaim(rng, nt):
    dur = rng.choice([0, 0, 1, 2, 3, 5, 10, 10, 30, 60])
    args = {"cgroup": pick_patterns(rng), "duration": str(dur)}
    clocks = clock_seq(rng, nt, dur)
    pres = presence_seq(rng, nt)
    quiet = rng.random() < 0.35       # counters rarely move
    zero_start = rng.random() < 0.4
    ctr = {}
    ticks = []
    for i in range(nt):
        cgs = []
        for p in pres[i]:
            cg = base_cg(p, rng)
            if p not in ctr:
                ctr[p] = 0 if zero_start else rng.choice([0, 0, 5, 1000, 123456789])
            if rng.random() < (0.12 if quiet else 0.45):
                ctr[p] += rng.choice([1, 1, 32, 4096])
            if rng.random() < 0.03:
                ctr[p] = max(0, ctr[p] - rng.choice([1, 5]))      # a counter that goes back (re-created cgroup)
            if rng.random() < 0.9:
                st = {"anon": rng.randint(0, 1 << 30)}
                if rng.random() < 0.93:
                    st["pgscan"] = ctr[p]
                cg["stat"] = st
            cgs.append(cg)
        ticks.append({"clock": clocks[i], "cgs": cgs})
    return {"det": "memory_reclaim", "args": args, "ticks": ticks}


def swap_band(rng, pct):
    """(total_kb, free_kb) with free exactly inside the < 100-byte band between floor(total/100)*pct and floor(total*pct/100)
    (bytes): the order of the multiplication and the division in `swaptotal * threshold_pct / 100` decides the verdict"""
    for _ in range(4000):
        t_kb = rng.randint(1000, 1 << 34)
        t = t_kb * 1024
        if t % 100 == 0:
            continue
        lo, hi = t // 100 * pct, t * pct // 100
        m = -(-lo // 1024) * 1024
        if lo <= m < hi and m <= t:
            return t_kb, m // 1024
    return None


def gen_swap_free(rng, nt):
    if rng.random() < 0.15:
        pct = rng.choice([50, 75, 90, 97, 99])
        b = swap_band(rng, pct)
        if b:
            t_kb, f_kb = b
            ticks = []
            for i, df in enumerate([0, 1, -1, 0][:max(2, min(nt, 4))]):
                f = min(max(f_kb + df, 0), t_kb)
                ticks.append({"clock": (1000 + i) * S, "cgs": [],
                              "sys": {"swaptotal": t_kb * 1024, "swapused": (t_kb - f) * 1024, "swapout_bps": 0}})
            return {"det": "swap_free", "args": {"threshold_pct": str(pct)}, "ticks": ticks}
    pct = rng.choice([0, 1, 5, 10, 15, 20, 50, 99, 100, 150])
    args = {"threshold_pct": str(pct)}
    bps = 0
    if rng.random() < 0.5:
        bps = rng.choice([0, 1, 4096, 1000000])
        args["swapout_bps_threshold"] = str(bps)
    total_kb = rng.choice([0, 1, 100, 1000, 20971512, 1 << 30, (1 << 40) + 7])
    ticks = []
    for i in range(nt):
        if rng.random() < 0.1:
            total_kb = rng.choice([0, 1, 100, 1000, 20971512, 1 << 30])
        thr_free_kb = total_kb * pct // 100
        free_kb = near(rng, thr_free_kb, [-100, -2, -1, 0, 0, 1, 1, 2, 100], 0, total_kb) if rng.random() < 0.8 else \
            rng.randint(0, total_kb)
        rate = near(rng, bps, [-4096, -1, 0, 0, 1, 4096, 10 ** 7], 0) if rng.random() < 0.8 else 0
        ticks.append({"clock": (1000 + i) * S, "cgs": [],
                      "sys": {"swaptotal": total_kb * 1024, "swapused": (total_kb - free_kb) * 1024,
                              "swapout_bps": rate}})
    return {"det": "swap_free", "args": args, "ticks": ticks}


def gen_exists(rng, nt):
    args = {"cgroup": pick_patterns(rng)}
    if rng.random() < 0.6:
        args["negate"] = rng.choice(["true", "false", "1", "0", "True", "False"])
    pres = presence_seq(rng, nt)
    ticks = [{"clock": (1000 + i) * S, "cgs": [base_cg(p, rng) for p in pres[i]]} for i in range(nt)]
    return {"det": "exists", "args": args, "ticks": ticks}


def gen_dying(rng, nt):
    count = rng.choice([0, 1, 3, 10, 30000])
    args = {"cgroup": pick_patterns(rng), "count": str(count)}
    if rng.random() < 0.7:
        args["lte"] = rng.choice(["true", "false", "false", "1", "0"])
    if rng.random() < 0.1:
        args["debug"] = "true"
    pres = presence_seq(rng, nt)
    ticks = []
    for i in range(nt):
        cgs = []
        for p in pres[i]:
            cg = base_cg(p, rng)
            if rng.random() < 0.85:
                cg["dying"] = near(rng, count, [-1, 0, 0, 1, 1, 2, 50], 0)
                if rng.random() < 0.06:
                    cg["dying_nokey"] = True
            cgs.append(cg)
        ticks.append({"clock": (1000 + i) * S, "cgs": cgs})
    return {"det": "nr_dying_descendants", "args": args, "ticks": ticks}


def one(rng, maxticks):
    r = rng.random()
    nt = rng.randint(1, maxticks) if rng.random() < 0.85 else rng.randint(1, 3)
    if r < 0.24:
        s = gen_pressure(rng, nt, False)
    elif r < 0.44:
        s = gen_memory_above(rng, nt)
    elif r < 0.66:
        s = gen_pressure(rng, nt, True)
    elif r < 0.82:
        s = gen_reclaim(rng, nt)
    elif r < 0.88:
        s = gen_swap_free(rng, min(nt, 8))
    elif r < 0.94:
        s = gen_exists(rng, min(nt, 8))
    else:
        s = gen_dying(rng, min(nt, 8))
    s["ctx"] = "fresh" if rng.random() < 0.3 else "persistent"
    return s


def gen(rng, tier):
    n, mt = {"quick": (3000, 12), "thorough": (40000, 40), "search": (12000, 16)}[tier]
    for _ in range(n):
        yield one(rng, mt)


def nontrivial(s, t, v):
    r = t.get("rets", [])
    return len(r) >= 2 and "CONTINUE" in r and "STOP" in r


def bucket(s, t, v):
    b = [s["det"]]
    r = t.get("rets", [])
    if "CONTINUE" in r and "STOP" in r:
        b.append(s["det"] + ":both")
    if s.get("ctx") == "fresh":
        b.append("ctx:fresh")
    if v.get("tie_overflow"):
        b.append("tie_overflow")
    b.append("ticks:%d" % (10 * (len(s["ticks"]) // 10)))
    return b


def extra_coverage(results):
    ties = 0
    for (s, t, v) in results:
        if s["det"] in ("pressure_above", "pressure_rising_beyond"):
            key = "mp" if s["args"].get("resource") == "memory" else "iop"
            for tk in s["ticks"]:
                sc = sorted((3 * c[key][0] + 2 * c[key][1] + c[key][2]) for c in tk["cgs"] if c.get(key))
                if len(sc) >= 2 and sc[-1] == sc[-2] and sc[-1] > 0:
                    ties += 1
                    break
    return {"histories_with_score_ties": ties,
            "swap_ticks_outside_domain": sum(v.get("outside_domain", 0) for (_, _, v) in results)}


def shrink_candidates(s):
    nt = len(s["ticks"])
    # drop a tick
    for i in range(nt - 1, -1, -1):
        if nt > 1:
            yield dict(s, ticks=s["ticks"][:i] + s["ticks"][i + 1:])
    # drop a cgroup (and its descendants) everywhere
    paths = sorted({c["path"] for tk in s["ticks"] for c in tk["cgs"]})
    for p in paths:
        yield dict(s, ticks=[dict(tk, cgs=[c for c in tk["cgs"] if not (c["path"] == p or c["path"].startswith(p + "/"))])
                             for tk in s["ticks"]])
    # drop a pattern
    if "cgroup" in s["args"]:
        pats = s["args"]["cgroup"].split(",")
        if len(pats) > 1:
            for i in range(len(pats)):
                yield dict(s, args=dict(s["args"], cgroup=",".join(pats[:i] + pats[i + 1:])))
    # simplify per-cgroup noise
    for k in ("fresh",):
        if any(c.get(k) for tk in s["ticks"] for c in tk["cgs"]):
            yield dict(s, ticks=[dict(tk, cgs=[dict(c, **{k: False}) for c in tk["cgs"]]) for tk in s["ticks"]])
    if s.get("ctx") == "fresh":
        yield dict(s, ctx="persistent")

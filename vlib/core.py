"""Shared machinery of the oomd verification checks (see DESIGN.md sections 2 and 6).

Every check:  translator -> lake build + audit (proof obligations) -> rebuild the real C++ from
/repo's working tree + harness -> generate scenarios -> run implementation -> run Lean model driver
-> compare (accepts / holds) -> search / shrink -> evidence + exit code.
"""
import fcntl
import hashlib
import json
import os
import random
import re
import shutil
import signal
import subprocess
import sys
import tempfile
import time
from concurrent.futures import ThreadPoolExecutor

VERIF = os.path.dirname(os.path.dirname(os.path.abspath(__file__)))
REPO = os.environ.get("VERIF_REPO", "/repo")
SCRATCH = os.environ.get("VERIF_SCRATCH", "/var/tmp/oomd-verif")
LEAN_DIR = os.path.join(VERIF, "lean")
NCPU = os.cpu_count() or 4
GUARD = "OOMD_VERIF"
# evidence of a run against a scratch tree (VERIF_REPO, used to try mutations) never overwrites the evidence of /repo
EVIDENCE_DIR = os.path.join(VERIF, "evidence") if os.path.realpath(REPO) == "/repo" else os.path.join(SCRATCH, "evidence-scratch")

FORBIDDEN = re.compile(r"\b(sorry|admit|native_decide|bv_decide|implemented_by|unsafe)\b|^\s*axiom\s|maxHeartbeats\s+0")
ALLOWED_AXIOMS = {"propext", "Quot.sound", "Classical.choice"}


class InfraError(Exception):
    pass


def log(*a):
    print(*a, file=sys.stderr, flush=True)


def sha(*parts):
    h = hashlib.sha256()
    for p in parts:
        if isinstance(p, str):
            p = p.encode()
        h.update(p)
        h.update(b"\0")
    return h.hexdigest()


def ensure_dir(p):
    os.makedirs(p, exist_ok=True)
    return p


class FileLock:
    def __init__(self, path):
        ensure_dir(os.path.dirname(path))
        self.path = path

    def __enter__(self):
        self.f = open(self.path, "w")
        fcntl.flock(self.f, fcntl.LOCK_EX)
        return self

    def __exit__(self, *a):
        fcntl.flock(self.f, fcntl.LOCK_UN)
        self.f.close()


# --------------------------------------------------------------------------------------------
# C++ side: compile /repo's working tree into a content-addressed object cache, link harnesses
# --------------------------------------------------------------------------------------------

FLAVOURS = {
    "asan": ["-O1", "-g", "-fsanitize=address,undefined", "-fno-sanitize-recover=all",
             "-fno-omit-frame-pointer", "-D_GLIBCXX_ASSERTIONS"],
    "tsan": ["-O1", "-g", "-fsanitize=thread", "-D_GLIBCXX_ASSERTIONS"],
    "plain": ["-O1", "-g", "-D_GLIBCXX_ASSERTIONS"],
}
BASE_FLAGS = ["-std=c++20", "-DMESON_BUILD", "-D" + GUARD, "-fPIC", "-pthread", "-w"]


def repo_sources():
    txt = open(os.path.join(REPO, "meson.build")).read()
    m = re.search(r"srcs = files\('''(.*?)'''", txt, re.S)
    if not m:
        raise InfraError("cannot find srcs block in meson.build")
    srcs = m.group(1).split()
    for extra in ("src/oomd/plugins/systemd/BaseSystemdPlugin.cpp", "src/oomd/plugins/systemd/SystemdRestart.cpp"):
        if os.path.exists(os.path.join(REPO, extra)) and extra not in srcs:
            srcs.append(extra)
    return srcs


def _tree_hash(root, exts):
    h = hashlib.sha256()
    for d, _, fs in sorted(os.walk(root)):
        for f in sorted(fs):
            if f.endswith(exts):
                p = os.path.join(d, f)
                h.update(os.path.relpath(p, root).encode())
                h.update(open(p, "rb").read())
    return h.hexdigest()


def include_dir():
    inc = ensure_dir(os.path.join(SCRATCH, "inc"))
    vh = os.path.join(inc, "Version.h")
    if not os.path.exists(vh):
        with open(vh + ".tmp%d" % os.getpid(), "w") as f:
            f.write('#pragma once\n#define GIT_VERSION "verif"\n')
        os.replace(vh + ".tmp%d" % os.getpid(), vh)
    return inc


def _compile(src, obj, flags):
    tmp = obj + ".tmp%d" % os.getpid()
    cmd = ["g++"] + flags + ["-c", src, "-o", tmp]
    r = subprocess.run(cmd, capture_output=True, text=True)
    if r.returncode != 0:
        try:
            os.unlink(tmp)
        except OSError:
            pass
        return src, r.stderr[-4000:]
    os.replace(tmp, obj)
    return src, None


def build_objects(flavour, extra_defs=()):
    """objects of the real oomd library, compiled from REPO's working tree"""
    inc = include_dir()
    flags = BASE_FLAGS + FLAVOURS[flavour] + list(extra_defs) + ["-I" + os.path.join(REPO, "src"), "-I" + inc, "-I/usr/include/jsoncpp"]
    hdr = _tree_hash(os.path.join(REPO, "src"), (".h",))
    odir = ensure_dir(os.path.join(SCRATCH, "obj", flavour))
    todo, objs = [], []
    for s in repo_sources():
        p = os.path.join(REPO, s)
        key = sha(hdr, open(p, "rb").read(), " ".join(f for f in flags if not f.startswith("-I")), s)[:32]
        o = os.path.join(odir, key + ".o")
        objs.append(o)
        if not os.path.exists(o):
            todo.append((p, o))
        else:
            os.utime(o)
    if todo:
        t0 = time.time()
        with ThreadPoolExecutor(NCPU) as ex:
            res = list(ex.map(lambda a: _compile(a[0], a[1], flags), todo))
        bad = [(s, e) for s, e in res if e]
        if bad:
            raise InfraError("C++ build of /repo failed:\n" + "\n".join(s + "\n" + e for s, e in bad))
        log("[build] compiled %d objects (%s) in %.1fs" % (len(todo), flavour, time.time() - t0))
    return objs, flags


def build_harness(name, flavour="asan", extra_srcs=(), libs=("-ljsoncpp", "-lsystemd", "-ldl")):
    """link harness/<name>.cpp (+ harness/common) against the freshly compiled real sources"""
    objs, flags = build_objects(flavour)
    hdir = os.path.join(VERIF, "harness")
    srcs = [os.path.join(hdir, name + ".cpp")] + [os.path.join(hdir, s) for s in extra_srcs]
    hh = _tree_hash(hdir, (".h",))
    hflags = flags + ["-I" + hdir]
    hobjs, todo = [], []
    odir = ensure_dir(os.path.join(SCRATCH, "obj", flavour))
    repo_hdr = _tree_hash(os.path.join(REPO, "src"), (".h",))
    for s in srcs:
        key = sha(hh, repo_hdr, open(s, "rb").read(), " ".join(f for f in hflags if not f.startswith("-I")), os.path.basename(s))[:32]
        o = os.path.join(odir, "h_" + key + ".o")
        hobjs.append(o)
        if not os.path.exists(o):
            todo.append((s, o))
        else:
            os.utime(o)
    if todo:
        with ThreadPoolExecutor(NCPU) as ex:
            res = list(ex.map(lambda a: _compile(a[0], a[1], hflags), todo))
        bad = [(s, e) for s, e in res if e]
        if bad:
            raise InfraError("harness build failed:\n" + "\n".join(s + "\n" + e for s, e in bad))
    key = sha(*(objs + hobjs), flavour, " ".join(libs))[:32]
    bdir = ensure_dir(os.path.join(SCRATCH, "bin", flavour))
    exe = os.path.join(bdir, name + "-" + key)
    if not os.path.exists(exe):
        tmp = exe + ".tmp%d" % os.getpid()
        cmd = ["g++"] + FLAVOURS[flavour] + ["-pthread", "-o", tmp] + hobjs + objs + list(libs)
        t0 = time.time()
        r = subprocess.run(cmd, capture_output=True, text=True)
        if r.returncode != 0:
            raise InfraError("harness link failed:\n" + r.stderr[-4000:])
        os.replace(tmp, exe)
        log("[build] linked %s (%s) in %.1fs" % (name, flavour, time.time() - t0))
    else:
        os.utime(exe)
    return exe


def prune_cache(max_age_s=2 * 86400):
    now = time.time()
    for sub in ("obj", "bin"):
        root = os.path.join(SCRATCH, sub)
        for d, _, fs in os.walk(root):
            for f in fs:
                p = os.path.join(d, f)
                try:
                    if now - os.stat(p).st_mtime > max_age_s:
                        os.unlink(p)
                except OSError:
                    pass


# --------------------------------------------------------------------------------------------
# Change-directed escalation (DESIGN 2.4): never a verdict, only a bigger budget
# --------------------------------------------------------------------------------------------

FINGERPRINTS = os.path.join(LEAN_DIR, "fingerprints.json")


def _norm_source(txt):
    txt = re.sub(r"/\*.*?\*/", " ", txt, flags=re.S)
    txt = re.sub(r"//[^\n]*", " ", txt)
    return re.sub(r"\s+", " ", txt).strip()


def source_fingerprints(repo=None):
    repo = repo or REPO
    root = os.path.join(repo, "src", "oomd")
    out = {}
    for d, _, fs in sorted(os.walk(root)):
        for f in sorted(fs):
            if f.endswith((".cpp", ".h")) and not f.endswith("Test.cpp") and "fixtures" not in d:
                p = os.path.join(d, f)
                out[os.path.relpath(p, repo)] = sha(_norm_source(open(p, errors="replace").read()))[:20]
    return out


def changed_sources():
    """source files of REPO whose text (comments and white space aside) differs from the tree the models were last shown
    to agree with (lean/fingerprints.json, written by tools/fingerprint.py --update).  Used only to spend the `search`
    generator budget in the quick tier on a tree that has been edited."""
    try:
        base = json.load(open(FINGERPRINTS))
    except Exception:
        return []
    cur = source_fingerprints()
    return sorted(f for f in set(base) | set(cur) if base.get(f) != cur.get(f))


# --------------------------------------------------------------------------------------------
# Lean side
# --------------------------------------------------------------------------------------------

def run_translator():
    """regenerate OomdModel/Generated/*.lean from REPO (tools/extract.py); returns its report"""
    r = subprocess.run([sys.executable, os.path.join(VERIF, "tools", "extract.py"), "--repo", REPO,
                        "--out", os.path.join(LEAN_DIR, "OomdModel", "Generated")],
                       capture_output=True, text=True)
    if r.returncode != 0:
        raise InfraError("translator failed:\n" + r.stdout + r.stderr)
    try:
        return json.loads(r.stdout.strip().splitlines()[-1])
    except Exception:
        return {}


def lake_build(targets=(), translate=True):
    """regenerate the tables from REPO and build; returns (ok, failed_modules, output).  Translator and build
    run under one lock so that concurrent checks (possibly against different VERIF_REPO trees) each build
    against the tables of their own tree."""
    with FileLock(os.path.join(SCRATCH, "lake.lock")):
        if translate:
            lake_build.last_report = run_translator()
        t0 = time.time()
        r = subprocess.run(["lake", "build"] + list(targets), cwd=LEAN_DIR, capture_output=True, text=True)
        out = r.stdout + r.stderr
        failed = re.findall(r"^✖ \[\d+/\d+\] Building (\S+)", out, re.M)
        failed += [m for m in re.findall(r"^- (\S+)$", out, re.M) if m not in failed]
        log("[lean] lake build %s in %.1fs" % ("ok" if r.returncode == 0 else "FAILED " + ",".join(failed), time.time() - t0))
        return r.returncode == 0, failed, out


def driver_path(engine):
    return os.path.join(LEAN_DIR, ".lake", "build", "bin", "drv_" + engine)


def module_imports(mod):
    """transitive project-local imports of a Lean module (by reading the sources)"""
    seen, todo = set(), [mod]
    while todo:
        m = todo.pop()
        if m in seen:
            continue
        p = os.path.join(LEAN_DIR, m.replace(".", "/") + ".lean")
        if not os.path.exists(p):
            continue
        seen.add(m)
        for line in open(p):
            mm = re.match(r"\s*import\s+(\S+)", line)
            if mm:
                todo.append(mm.group(1))
    return seen


AUDIT_TMPL = """import Lean
import OomdProps.%(prop)s
open Lean Elab Command
run_cmd do
  let env ← getEnv
  let some modIdx := env.getModuleIdx? `OomdProps.%(prop)s | throwError "module not found"
  for (n, ci) in env.constants.map₁.toList do
    if env.getModuleIdxFor? n != some modIdx then continue
    if n.getPrefix != `%(prop)s then continue
    if n.isInternal then continue
    match ci with
    | .thmInfo v =>
      let axs ← liftCoreM (collectAxioms n)
      let stmt ← liftTermElabM do
        let f ← Meta.ppExpr v.type
        pure (toString f)
      IO.println ("AUDIT " ++ (Json.mkObj [("thm", toString n), ("axioms", Json.arr (axs.map (fun a => Json.str (toString a)))), ("stmt", stmt)]).compress)
    | _ => pure ()
"""


def strip_lean_comments(src):
    src = re.sub(r"/-.*?-/", "", src, flags=re.S)
    src = re.sub(r"--.*", "", src)
    src = re.sub(r'"(?:[^"\\]|\\.)*"', '""', src)
    return src


def audit(prop):
    """list the property theorems of OomdProps.<prop> with their axioms; forbidden-token grep over
    every project module the property file depends on; compare with the pinned statements"""
    res = {"theorems": [], "axioms": [], "problems": []}
    adir = ensure_dir(os.path.join(LEAN_DIR, ".lake", "audit"))
    f = os.path.join(adir, "audit_%s.lean" % prop)
    with open(f, "w") as fh:
        fh.write(AUDIT_TMPL % {"prop": prop})
    with FileLock(os.path.join(SCRATCH, "lake.lock")):
        r = subprocess.run(["lake", "env", "lean", f], cwd=LEAN_DIR, capture_output=True, text=True)
    if r.returncode != 0:
        res["problems"].append("audit script failed: " + (r.stdout + r.stderr)[-1500:])
        return res
    thms = []
    for line in r.stdout.splitlines():
        if line.startswith("AUDIT "):
            thms.append(json.loads(line[6:]))
    thms.sort(key=lambda t: t["thm"])
    res["theorems"] = thms
    axs = sorted({a for t in thms for a in t["axioms"]})
    res["axioms"] = axs
    for a in axs:
        if a not in ALLOWED_AXIOMS:
            res["problems"].append("theorem depends on non-standard axiom " + a)
    for m in sorted(module_imports("OomdProps." + prop)):
        p = os.path.join(LEAN_DIR, m.replace(".", "/") + ".lean")
        for i, line in enumerate(strip_lean_comments(open(p).read()).splitlines(), 1):
            if FORBIDDEN.search(line):
                res["problems"].append("forbidden token in %s:%d: %s" % (m, i, line.strip()[:80]))
    pin_file = os.path.join(LEAN_DIR, "pins", prop + ".json")
    mine = {t["thm"]: sha(t["stmt"])[:16] for t in thms}
    if os.environ.get("VERIF_PIN") == "1":
        ensure_dir(os.path.dirname(pin_file))
        with open(pin_file, "w") as fh:
            json.dump(mine, fh, indent=1, sort_keys=True)
    want = json.load(open(pin_file)) if os.path.exists(pin_file) else None
    if want is None:
        res["problems"].append("no pinned theorem list for " + prop + " (run with VERIF_PIN=1)")
    else:
        for k, v in want.items():
            if k not in mine:
                res["problems"].append("pinned theorem missing: " + k)
            elif mine[k] != v:
                res["problems"].append("statement of pinned theorem changed: " + k)
    return res


def leanchecker(prop):
    r = subprocess.run(["lake", "env", "leanchecker", "OomdProps." + prop], cwd=LEAN_DIR, capture_output=True, text=True)
    return r.returncode == 0, (r.stdout + r.stderr)[-800:]


# --------------------------------------------------------------------------------------------
# Running harness and driver
# --------------------------------------------------------------------------------------------

def _run_chunk(exe, args, lines, timeout, env):
    """feed scenario lines to one harness process; on a crash attribute it to the first scenario without
    output and continue with the rest in a fresh process"""
    out = {}
    pending = list(lines)
    while pending:
        inp = "\n".join(json.dumps(s, separators=(",", ":")) for s in pending) + "\n"
        try:
            r = subprocess.run([exe] + list(args), input=inp, capture_output=True, text=True, timeout=timeout, env=env)
            rc, so, se = r.returncode, r.stdout, r.stderr
        except subprocess.TimeoutExpired as e:
            rc, so, se = -999, (e.stdout or b"").decode(errors="replace") if isinstance(e.stdout, bytes) else (e.stdout or ""), \
                (e.stderr or b"").decode(errors="replace") if isinstance(e.stderr, bytes) else (e.stderr or "")
        got = 0
        for line in so.splitlines():
            if not line.startswith("{"):
                continue
            try:
                j = json.loads(line)
            except Exception:
                continue
            if "id" in j:
                out[j["id"]] = j
        rest = [s for s in pending if s["id"] not in out]
        if not rest:
            break
        # first scenario without output is the one that killed the process
        victim = rest[0]
        if rc == -999:
            # the time limit is for the whole chunk and the machine may be busy: a hang is only declared when the
            # scenario also exceeds the limit on its own
            try:
                r1 = subprocess.run([exe] + list(args), input=json.dumps(victim, separators=(",", ":")) + "\n",
                                    capture_output=True, text=True, timeout=timeout, env=env)
                done = False
                for line in r1.stdout.splitlines():
                    if line.startswith("{"):
                        try:
                            j = json.loads(line)
                        except Exception:
                            continue
                        if j.get("id") == victim["id"]:
                            out[victim["id"]] = j
                            done = True
                if not done:
                    out[victim["id"]] = {"id": victim["id"], "outcome": classify_crash(r1.returncode, r1.stderr), "stderr": r1.stderr[-3000:]}
            except subprocess.TimeoutExpired:
                out[victim["id"]] = {"id": victim["id"], "outcome": "timeout", "stderr": se[-3000:]}
        else:
            out[victim["id"]] = {"id": victim["id"], "outcome": classify_crash(rc, se), "stderr": se[-3000:]}
        pending = rest[1:]
    return out


def classify_crash(rc, se):
    if "AddressSanitizer" in se:
        m = re.search(r"AddressSanitizer: (\S+)", se)
        return "asan:" + (m.group(1) if m else "?")
    if "runtime error:" in se:
        m = re.search(r"runtime error: ([^\n]{0,60})", se)
        return "ubsan:" + (m.group(1) if m else "?")
    if "ThreadSanitizer" in se:
        m = re.search(r"ThreadSanitizer: ([^\n(]{0,40})", se)
        return "tsan:" + (m.group(1).strip() if m else "?")
    if "terminate called" in se:
        m = re.search(r"instance of '([^']+)'", se)
        return "uncaught:" + (m.group(1) if m else "?")
    if "Assertion" in se or "assert" in se:
        return "abort:assert"
    if rc < 0:
        try:
            return "signal:" + signal.Signals(-rc).name
        except Exception:
            return "signal:%d" % -rc
    return "exit:%d" % rc


_world = None


def world_dir():
    """per-check scratch directory for scenario worlds (tmpfs when available), removed at exit"""
    global _world
    if _world is None:
        base = "/dev/shm" if os.path.isdir("/dev/shm") and os.access("/dev/shm", os.W_OK) else SCRATCH
        _world = ensure_dir(os.path.join(base, "oomd-verif-world", str(os.getpid())))
        import atexit
        atexit.register(lambda: shutil.rmtree(_world, ignore_errors=True))
    return _world


def run_harness(exe, scenarios, args=(), jobs=None, timeout=300, env=None, chunk=None):
    jobs = jobs or NCPU
    if not scenarios:
        return {}
    e = dict(os.environ)
    e.setdefault("ASAN_OPTIONS", "detect_leaks=0:abort_on_error=0:allocator_may_return_null=1")
    e.setdefault("UBSAN_OPTIONS", "print_stacktrace=1")
    e["INLINE_LOGGING"] = "1"
    if "VERIF_WORLD" not in e:
        e["VERIF_WORLD"] = world_dir()
    if env:
        e.update(env)
    n = len(scenarios)
    chunk = chunk or max(1, min(400, (n + jobs - 1) // jobs))
    chunks = [scenarios[i:i + chunk] for i in range(0, n, chunk)]
    out = {}
    with ThreadPoolExecutor(jobs) as ex:
        for o in ex.map(lambda c: _run_chunk(exe, args, c, timeout, e), chunks):
            out.update(o)
    return out


def run_driver(engine, pairs, jobs=None):
    """pairs: list of (scenario, trace).  Returns {id: verdict}"""
    if not pairs:
        return {}
    jobs = jobs or NCPU
    drv = driver_path(engine)
    n = len(pairs)
    chunk = max(1, (n + jobs - 1) // jobs)
    chunks = [pairs[i:i + chunk] for i in range(0, n, chunk)]

    def one(c):
        inp = "\n".join(json.dumps({"s": s, "t": t}, separators=(",", ":")) for s, t in c) + "\n"
        r = subprocess.run([drv, engine], input=inp, capture_output=True, text=True)
        if r.returncode != 0:
            raise InfraError("driver failed: " + r.stderr[-2000:])
        res = {}
        for line in r.stdout.splitlines():
            j = json.loads(line)
            if "id" in j:
                res[j["id"]] = j
        return res
    out = {}
    with ThreadPoolExecutor(jobs) as ex:
        for o in ex.map(one, chunks):
            out.update(o)
    return out


# --------------------------------------------------------------------------------------------
# Known findings
# --------------------------------------------------------------------------------------------

def load_findings():
    known, fixed = [], []
    p = os.path.join(VERIF, "known_findings.txt")
    if os.path.exists(p):
        for line in open(p):
            line = line.strip()
            if not line or line.startswith("#"):
                continue
            m = re.match(r"known:\s+property=(\S+)\s+class=(\S+)\s+(.*)", line)
            if m:
                known.append({"property": m.group(1), "class": m.group(2), "text": m.group(3)})
                continue
            m = re.match(r"fixed:\s+property=(\S+)\s+(\S+)\s+(.*)", line)
            if m:
                fixed.append({"property": m.group(1), "commit": m.group(2), "text": m.group(3)})
    return known, fixed


# --------------------------------------------------------------------------------------------
# Generic check runner
# --------------------------------------------------------------------------------------------

class Check:
    """A property module supplies: PROP, ENGINE (driver engine), HARNESS (cpp file stem), FLAVOUR,
    gen(rng, tier) -> scenarios, nontrivial(sc, tr, v) -> bool and optional hooks."""

    def __init__(self, mod, tier, seed):
        self.mod, self.tier, self.seed = mod, tier, seed
        self.prop = mod.PROP
        self.t0 = time.time()
        self.notes = []

    # ----- pipeline pieces -----
    def corpus(self):
        d = os.path.join(VERIF, "corpus", self.prop)
        out = []
        if os.path.isdir(d):
            for f in sorted(os.listdir(d)):
                if f.endswith(".json"):
                    for line in open(os.path.join(d, f)):
                        line = line.strip()
                        if line:
                            sc = json.loads(line)
                            sc = sc.get("scenario", sc)
                            sc["id"] = "corpus-%s-%d" % (f[:-5], len(out))
                            out.append(sc)
        return out

    def execute(self, exe, scs):
        tr = run_harness(exe, scs, args=getattr(self.mod, "HARNESS_ARGS", ()),
                         timeout=getattr(self.mod, "TIMEOUT", 300), chunk=getattr(self.mod, "CHUNK", None),
                         jobs=getattr(self.mod, "JOBS", None))
        pairs = [(s, tr.get(s["id"], {"id": s["id"], "outcome": "missing"})) for s in scs]
        vs = run_driver(self.mod.ENGINE, pairs)
        return [(s, t, vs.get(s["id"], {"id": s["id"], "accepts": False, "holds": True, "violated": [], "error": "no verdict"})) for s, t in pairs]

    def classify(self, s, t, v):
        if hasattr(self.mod, "classify"):
            return self.mod.classify(s, t, v)
        if v.get("class"):
            return v["class"]
        oc = t.get("outcome", "")
        if oc and oc not in ("ok", "exit0"):
            return "outcome:" + oc
        return (v.get("violated") or ["?"])[0]

    def shrink(self, exe, s, pred, budget=60):
        """greedy delta debugging using the module's shrink_candidates"""
        if not hasattr(self.mod, "shrink_candidates"):
            return s
        cur, t0 = s, time.time()
        improved = True
        while improved and time.time() - t0 < budget:
            improved = False
            cands = []
            for i, c in enumerate(self.mod.shrink_candidates(cur)):
                c = dict(c)
                c["id"] = "shr-%d" % i
                cands.append(c)
                if len(cands) >= 64:
                    break
            if not cands:
                break
            for (c, t, v) in self.execute(exe, cands):
                if pred(c, t, v):
                    cur, improved = c, True
                    break
        return cur

    def write_replay(self, name, payload):
        d = ensure_dir(os.path.join(VERIF, "replays"))
        p = os.path.join(d, name)
        with open(p, "w") as f:
            json.dump(payload, f, indent=1, sort_keys=True)
        return p


def bad_outcome(t):
    oc = t.get("outcome", "ok")
    return oc not in ("ok", "exit0")


def extra_pass(prop, engine, harness, flavour, scs, tier, seed, want=None, shrink_candidates=None, label="extra"):
    """A second correspondence pass of a property on another engine (e.g. C07's deadline clauses on the real Ruleset, C17's
    return-value clause on the kill plugins with prekill hooks).  `want(clause)` selects which violated clauses of that
    engine's driver belong to this property (the others are the subject of the property that owns the engine).
    Returns ([(class, replay path)], coverage counts)."""
    class _M:
        PROP = prop
        ENGINE = engine
        HARNESS = harness
        FLAVOUR = flavour
    ok, failed, out = lake_build(["drv_" + engine], translate=False)
    if not ok or not os.path.exists(driver_path(engine)):
        raise InfraError("drv_%s could not be built: %s" % (engine, failed))
    exe = build_harness(harness, flavour)
    ck = Check(_M, tier, seed)
    for i, s in enumerate(scs):
        s.setdefault("id", "%s-%s-s%d-%d" % (prop, label, seed, i))
    res = ck.execute(exe, scs)

    def clauses(t, v):
        if bad_outcome(t):
            return ["outcome:" + t.get("outcome", "?")]
        return [c for c in (v.get("violated") or []) if want is None or want(c)]
    failing = [(s, t, v) for (s, t, v) in res if clauses(t, v)]
    cov = {label + "_pass_scenarios": len(res), label + "_pass_failures": len(failing), label + "_pass_harness": harness}
    viol = []
    by = {}
    for s, t, v in failing:
        by.setdefault(clauses(t, v)[0], []).append((s, t, v))
    for c, items in sorted(by.items()):
        items.sort(key=lambda x: len(json.dumps(x[0])))
        s, t, v = items[0]
        cur, improved, t0 = s, bool(shrink_candidates), time.time()
        while improved and time.time() - t0 < 60:
            improved = False
            cands = []
            for i, cnd in enumerate(shrink_candidates(cur)):
                cands.append(dict(cnd, id="shr-%d" % i))
                if len(cands) >= 64:
                    break
            for (cs, ct, cv) in (ck.execute(exe, cands) if cands else []):
                if c in clauses(ct, cv):
                    cur, improved = cs, True
                    break
        if cur is not s:
            (s, t, v) = ck.execute(exe, [cur])[0]
        rp = ck.write_replay("%s-%d-%s.json" % (prop, seed, re.sub(r"[^A-Za-z0-9_.-]", "_", c.replace(prop + ".", ""))[:60]),
                             {"property": prop, "class": c, "kind": "failing-input", "engine": harness, "pass": label,
                              "count": len(items), "scenario": s, "impl_trace": t, "verdict": v})
        viol.append((c, rp))
    return viol, cov, res


def merge_extra_into_evidence(prop, cov, n_viol, rule_text):
    evp = os.path.join(EVIDENCE_DIR, prop + ".json")
    ev = json.load(open(evp))
    cov = dict(cov)
    for k in [k for k in cov if k.endswith("_pass_harness")]:
        tb = "harness/%s.cpp + its Lean driver (%s pass: clauses of this property evaluated on that engine's implementation trace)" % (cov.pop(k), k[:-len("_pass_harness")])
        if tb not in ev["coverage"].setdefault("trusted_base", []):
            ev["coverage"]["trusted_base"].append(tb)
    ev["coverage"].update(cov)
    ev["coverage"]["rule"] = ev["coverage"].get("rule", "") + " || " + rule_text
    ev["coverage"]["evaluations"] += sum(v for k, v in cov.items() if k.endswith("_pass_scenarios"))
    ev["violations"] = ev.get("violations", 0) + n_viol
    with open(evp, "w") as f:
        json.dump(ev, f, indent=1)


def run_check(mod, tier, seed, replay=None):
    ck = Check(mod, tier, seed)
    prop = ck.prop
    rng = random.Random(seed * 1000003 + sum(map(ord, prop)))
    known, fixed = load_findings()
    known = [k for k in known if k["property"] == prop]
    violations = []          # (class, replay_path, has_input)
    known_hits = {}
    coverage = {}
    assumptions = list(getattr(mod, "ASSUMPTIONS", []))

    # 1. translator + proof obligations
    ok, failed, out = lake_build(["+OomdProps." + prop, "drv_" + mod.ENGINE])
    trep = getattr(lake_build, "last_report", {})
    proof_broken = []
    engine_mod = "Driver." + mod.ENGINE.capitalize()
    driver_ok = True
    if not ok:
        deps = module_imports("OomdProps." + prop)
        ddeps = module_imports(engine_mod)
        proof_broken = [m for m in failed if m in deps]
        if any(m in ddeps for m in failed):
            driver_ok = False
        if not proof_broken and driver_ok and not any(m in ddeps for m in failed):
            log("[lean] build failure outside %s's dependencies: %s" % (prop, failed))
        if failed == []:
            raise InfraError("lake build failed without a module error:\n" + out[-3000:])
    driver_ok = driver_ok and os.path.exists(driver_path(mod.ENGINE))
    aud = {"theorems": [], "axioms": [], "problems": []}
    if not proof_broken:
        aud = audit(prop)
    lc = None
    if tier == "thorough" and not proof_broken:
        lc = leanchecker(prop)
        if not lc[0]:
            aud["problems"].append("leanchecker rejected OomdProps.%s: %s" % (prop, lc[1]))
    obligations = len(aud["theorems"]) + len(getattr(mod, "EXTRA_OBLIGATIONS", []))
    discharged = 0 if (proof_broken or aud["problems"]) else obligations

    # 2. implementation
    exe = build_harness(mod.HARNESS, getattr(mod, "FLAVOUR", "asan"), extra_srcs=getattr(mod, "EXTRA_SRCS", ()))

    # 3. scenarios
    if replay:
        rp = json.load(open(replay))
        scs = [rp["scenario"]] if "scenario" in rp else rp.get("scenarios", [])
        for i, s in enumerate(scs):
            s.setdefault("id", "replay-%d" % i)
    else:
        scs = ck.corpus()
        gen = list(mod.gen(rng, tier))
        changed = changed_sources()
        if changed and tier == "quick" and not os.environ.get("VERIF_NO_ESCALATION"):
            # the tree differs from the one the model was validated against: also spend the search budget
            gen += list(mod.gen(random.Random(seed * 31 + 5), "search"))
            ck.notes.append("escalated (quick + search budget): sources changed since the last validated tree: " + ", ".join(changed[:8]))
        seen = set()
        for i, s in enumerate(gen):
            s.setdefault("id", "%s-s%d-%d" % (prop, seed, i))
        scs += gen
    results = []
    if driver_ok:
        results = ck.execute(exe, scs)
    else:
        ck.notes.append("driver could not be built; correspondence not evaluated")

    # 4. compare
    canon = set()
    nontriv = set()
    n_accept_fail = 0
    failing = []       # holds = false (or bad outcome)
    disagree = []      # accepts = false, holds = true
    dist = {}
    for (s, t, v) in results:
        key = sha(json.dumps({k: s[k] for k in s if k != "id"}, sort_keys=True))[:16]
        canon.add(key)
        try:
            if mod.nontrivial(s, t, v):
                nontriv.add(key)
        except Exception:
            pass
        if hasattr(mod, "bucket"):
            for b in mod.bucket(s, t, v):
                dist[b] = dist.get(b, 0) + 1
        if "error" in v:
            raise InfraError("driver error on %s: %s" % (s["id"], v["error"]))
        bad = (not v.get("holds", True)) or (bad_outcome(t) and not getattr(mod, "OUTCOME_IN_MODEL", False))
        if bad:
            failing.append((s, t, v))
        elif not v.get("accepts", True):
            disagree.append((s, t, v))

    def is_failing(c, t, v):
        return (not v.get("holds", True)) or (bad_outcome(t) and not getattr(mod, "OUTCOME_IN_MODEL", False))

    # group failing by class
    by_class = {}
    for (s, t, v) in failing:
        by_class.setdefault(ck.classify(s, t, v), []).append((s, t, v))
    for cls, items in sorted(by_class.items()):
        kn = [k for k in known if k["class"] == cls]
        if kn:
            known_hits[cls] = (kn[0], len(items))
            continue
        items.sort(key=lambda x: len(json.dumps(x[0])))
        s, t, v = items[0]
        s2 = ck.shrink(exe, s, lambda c, tt, vv: is_failing(c, tt, vv) and ck.classify(c, tt, vv) == cls)
        if s2 is not s:
            (s, t, v) = ck.execute(exe, [s2])[0]
        rp = ck.write_replay("%s-%d-%s.json" % (prop, seed, re.sub(r"[^A-Za-z0-9_.-]", "_", cls)[:60]),
                             {"property": prop, "class": cls, "kind": "failing-input", "count": len(items),
                              "scenario": s, "impl_trace": t, "verdict": v})
        violations.append((cls, rp, True))

    # broken correspondence / proof obligation with no failing input
    if not violations:
        if disagree:   # (failures, if any, are all known findings at this point)
            disagree.sort(key=lambda x: len(json.dumps(x[0])))
            s, t, v = disagree[0]
            # search: thorough budget of the generator on fresh seeds, evaluating holds on implementation traces
            found = None
            if not replay and hasattr(mod, "gen"):
                extra = list(mod.gen(random.Random(seed + 7919), "search"))
                for i, e in enumerate(extra):
                    e["id"] = "search-%d" % i
                for (s3, t3, v3) in ck.execute(exe, extra):
                    if is_failing(s3, t3, v3) and not [k for k in known if k["class"] == ck.classify(s3, t3, v3)]:
                        found = (s3, t3, v3)
                        break
            if found:
                s3, t3, v3 = found
                rp = ck.write_replay("%s-%d-search.json" % (prop, seed), {"property": prop, "kind": "failing-input",
                                     "class": ck.classify(s3, t3, v3), "scenario": s3, "impl_trace": t3, "verdict": v3})
                violations.append((ck.classify(s3, t3, v3), rp, True))
            else:
                rp = ck.write_replay("%s-%d-correspondence.json" % (prop, seed),
                                     {"property": prop, "kind": "correspondence-broken",
                                      "what": "the Lean model (engine %s) no longer reproduces the implementation on this input; "
                                              "the property predicate still holds on every implementation trace explored" % mod.ENGINE,
                                      "count": len(disagree), "scenario": s, "impl_trace": t, "verdict": v})
                violations.append(("correspondence", rp, False))
        if (proof_broken or aud["problems"] or not driver_ok) and not violations:
            rp = ck.write_replay("%s-%d-proof.json" % (prop, seed),
                                 {"property": prop, "kind": "proof-obligation-broken",
                                  "modules": proof_broken, "problems": aud["problems"],
                                  "translator": trep, "build_output": out[-3000:] if not ok else ""})
            violations.append(("proof", rp, False))
    elif proof_broken or aud["problems"]:
        ck.notes.append("proof obligations also broken: %s %s" % (proof_broken, aud["problems"]))

    # 5. evidence
    samples = [{"scenario": s, "impl_trace": {k: t[k] for k in list(t)[:12]}, "verdict": {k: v[k] for k in ("accepts", "holds", "violated") if k in v}}
               for (s, t, v) in results[:1] + results[len(results) // 2: len(results) // 2 + 1]]
    for smp in samples:
        js = json.dumps(smp)
        if len(js) > 6000:
            smp.clear()
            smp["truncated"] = js[:6000]
    cov = {
        "obligations": obligations, "discharged": discharged,
        "checker_cmd": "cd /verif/lean && lake build && lake env lean .lake/audit/audit_%s.lean%s" % (prop, " && lake env leanchecker OomdProps.%s" % prop if tier == "thorough" else ""),
        "trusted_base": ["Lean 4.33.0 kernel", "axioms used: " + ", ".join(aud["axioms"]),
                         "tools/extract.py (translator for tables)", "harness/%s.cpp + vlib (correspondence check)" % mod.HARNESS] + list(getattr(mod, "TRUSTED", [])),
        "theorems": [t["thm"] for t in aud["theorems"]],
        "leanchecker": (lc[0] if lc else None),
        "evaluations": len(results), "distinct_nontrivial": len(nontriv), "distinct": len(canon),
        "traces_validated_against_impl": len(results),
        "model_disagreements": len(disagree), "property_failures": len(failing),
        "known_finding_hits": {c: n for c, (k, n) in known_hits.items()},
        "rule": getattr(mod, "RULE", ""), "samples": samples, "distribution": dist,
        "translator": trep, "notes": ck.notes,
        "exhaustive": bool(getattr(mod, "EXHAUSTIVE", {}).get(tier, False)),
    }
    if hasattr(mod, "extra_coverage"):
        cov.update(mod.extra_coverage(results))
    ev = {"property_id": prop, "tier": "thorough" if tier == "thorough" else "quick", "seed": seed, "level": "proof",
          "coverage": cov, "assumptions": assumptions, "wall_s": round(time.time() - ck.t0, 2),
          "violations": len(violations)}
    ensure_dir(EVIDENCE_DIR)
    with open(os.path.join(EVIDENCE_DIR, prop + ".json"), "w") as f:
        json.dump(ev, f, indent=1)

    for cls, (k, n) in sorted(known_hits.items()):
        print("KNOWN-FINDING: property=%s class=%s %s (%d inputs this run)" % (prop, cls, k["text"], n))
    for k in known:
        if k["class"] not in known_hits:
            log("[note] known finding %s not reproduced this run" % k["class"])
    for cls, rp, has_input in violations:
        print("VIOLATION property=%s replay=%s%s" % (prop, rp, "" if has_input else " no-failing-input-found"))
    log("[%s] %s tier, seed %d: %d scenarios, %d non-trivial, %d theorems, %d disagreements, %d failures, %.1fs" %
        (prop, tier, seed, len(results), len(nontriv), len(aud["theorems"]), len(disagree), len(failing), time.time() - ck.t0))
    prune_cache()
    return 1 if violations else 0
